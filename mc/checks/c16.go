package checks

import (
	"fmt"
	"hash/fnv"
	"math"
	"sync"

	"github.com/golang/geo/r3"
	"github.com/golang/geo/s2"

	"verif/mc/core"
	"verif/mc/exact"
	"verif/mc/lattice"
	"verif/mc/refmodel"
)

// C16 — the intersection point of two crossing edges is accurate and
// order-independent (engine E3: crossing pairs enumerated over lattices built
// around the two internal paths of s2.Intersection; reference X* =
// (a0 x a1) x (b0 x b1) in exact integer arithmetic; the error bound is compared
// as an exact rational inequality sin^2(angle) <= (8*2^-53)^2).

func init() {
	Registry["C16"] = &Check{Level: "exploration", QuickBudget: 90, ThoroughBudget: 900, Run: runC16}
}

// c16BoundExp: (8 * 2^-53)^2 = 2^-100.  sin(angle) > 2^-50 implies angle > 2^-50,
// so the test cannot accuse a result that is inside the documented bound.
const c16BoundExp = -100

type c16Tally struct {
	built, notCross, kept                      int64
	pathStable, pathExact, collinear, hemiSkip int64
	implDisagree, badEdge, underflow           int64
	maxErr                                     float64 // largest observed angle error in units of 8*2^-53
	maxErrStable, maxErrExact                  float64
	maxUnitDev                                 float64
}

type c16State struct {
	c    *core.Ctx
	mu   sync.Mutex
	tot  map[string]*c16Tally
	seen [64]map[uint64]struct{}
	smu  [64]sync.Mutex
}

func newC16State(c *core.Ctx) *c16State {
	st := &c16State{c: c, tot: map[string]*c16Tally{}}
	for i := range st.seen {
		st.seen[i] = map[uint64]struct{}{}
	}
	return st
}

func (st *c16State) merge(sub string, t *c16Tally) {
	st.mu.Lock()
	defer st.mu.Unlock()
	g := st.tot[sub]
	if g == nil {
		g = &c16Tally{}
		st.tot[sub] = g
	}
	g.built += t.built
	g.notCross += t.notCross
	g.kept += t.kept
	g.pathStable += t.pathStable
	g.pathExact += t.pathExact
	g.collinear += t.collinear
	g.hemiSkip += t.hemiSkip
	g.implDisagree += t.implDisagree
	g.badEdge += t.badEdge
	g.underflow += t.underflow
	g.maxErr = math.Max(g.maxErr, t.maxErr)
	g.maxErrStable = math.Max(g.maxErrStable, t.maxErrStable)
	g.maxErrExact = math.Max(g.maxErrExact, t.maxErrExact)
	g.maxUnitDev = math.Max(g.maxUnitDev, t.maxUnitDev)
}

// distinct records the pair and reports whether it is new.
func (st *c16State) distinct(a0, a1, b0, b1 s2.Point) bool {
	h := fnv.New64a()
	var buf [8]byte
	for _, p := range [4]s2.Point{a0, a1, b0, b1} {
		for _, f := range [3]float64{p.X, p.Y, p.Z} {
			u := math.Float64bits(f)
			for i := 0; i < 8; i++ {
				buf[i] = byte(u >> (8 * uint(i)))
			}
			h.Write(buf[:])
		}
	}
	k := h.Sum64()
	s := k % 64
	st.smu[s].Lock()
	_, ok := st.seen[s][k]
	if !ok {
		st.seen[s][k] = struct{}{}
	}
	st.smu[s].Unlock()
	return !ok
}

func c16P(p s2.Point) [3]float64 { return [3]float64{p.X, p.Y, p.Z} }

func c16Detail(tier string, a0, a1, b0, b1 s2.Point, extra map[string]any) map[string]any {
	m := map[string]any{"tier": tier, "a0": c16P(a0), "a1": c16P(a1), "b0": c16P(b0), "b1": c16P(b1)}
	for k, v := range extra {
		m[k] = v
	}
	return m
}

// c16AngleErr returns the exact verdict "the direction of r is within 2^-50 rad of
// the line of n" (sign not considered) and the error in units of 8*2^-53.
func c16AngleErr(r r3.Vector, n exact.V) (within bool, units float64, dotSign int) {
	if math.IsNaN(r.X+r.Y+r.Z) || math.IsInf(r.X+r.Y+r.Z, 0) {
		return false, math.Inf(1), 0
	}
	R := exact.FromVector(r)
	if R.IsZero() {
		return false, math.Inf(1), 0
	}
	lhs := R.Cross(n).Norm2()
	den := R.Norm2().Mul(n.Norm2())
	rhs := den.Mul(exact.S{M: exact.Int(1).M, E: c16BoundExp})
	within = lhs.Cmp(rhs) <= 0
	s2v := exact.HPRatio(lhs, den)
	units = exact.HPFloat64(exact.HPSqrt(s2v)) / (8 * 0x1p-53)
	return within, units, R.Dot(n).Sign()
}

var c16Orderings = [8][4]int{
	{0, 1, 2, 3}, {1, 0, 2, 3}, {0, 1, 3, 2}, {1, 0, 3, 2},
	{2, 3, 0, 1}, {3, 2, 0, 1}, {2, 3, 1, 0}, {3, 2, 1, 0},
}
var c16OrderNames = [8]string{"(a0,a1,b0,b1)", "(a1,a0,b0,b1)", "(a0,a1,b1,b0)", "(a1,a0,b1,b0)", "(b0,b1,a0,a1)", "(b1,b0,a0,a1)", "(b0,b1,a1,a0)", "(b1,b0,a1,a0)"}

// c16Eval evaluates one candidate pair.
func (st *c16State) eval(sub string, cas []int, a0, a1, b0, b1 s2.Point, t *c16Tally) {
	c := st.c
	t.built++
	for _, p := range [4]s2.Point{a0, a1, b0, b1} {
		if !p.IsUnit() {
			panic(core.HarnessError(fmt.Sprintf("C16 %s: constructed input %v is not unit length", sub, p)))
		}
	}
	if refmodel.CrossingSign(a0, a1, b0, b1) != refmodel.Cross {
		t.notCross++
		return
	}
	A0, A1, B0, B1 := exact.FromVector(a0.Vector), exact.FromVector(a1.Vector), exact.FromVector(b0.Vector), exact.FromVector(b1.Vector)
	na, nb := A0.Cross(A1), B0.Cross(B1)
	if na.IsZero() || nb.IsZero() {
		// endpoints with exactly the same or exactly opposite directions: the edge is
		// not defined (documented: edges are shorter than 180 degrees)
		t.badEdge++
		return
	}
	N := na.Cross(nb)
	t.kept++
	if st.distinct(a0, a1, b0, b1) {
		c.Nontrivial(1)
	}
	// class of the pair, part of every descriptor: exactly collinear edges; exact
	// intersection vector whose squared length is below the float64 normal range
	// (tiny edges / tiny crossing angles); everything else.
	class := "regular"
	switch {
	case N.IsZero():
		class = "exactly-collinear"
		for _, p := range [2]exact.V{A0, A1} {
			for _, q := range [2]exact.V{B0, B1} {
				if p.Cross(q).IsZero() {
					class = "exactly-collinear, an endpoint of a and an endpoint of b on one ray (same direction, different floats)"
				}
			}
		}
	case N.Norm2().Cmp(exact.S{M: exact.Int(1).M, E: -1022}) < 0:
		class = "tiny: |(a0xa1)x(b0xb1)|^2 below the float64 normal range"
		t.underflow++
	}
	pts := [4]s2.Point{a0, a1, b0, b1}
	det := func(extra map[string]any) func() any {
		return func() any { return c16Detail(c.Tier, a0, a1, b0, b1, extra) }
	}
	// The documented precondition of Intersection is the implementation's own
	// CrossingSign == Cross; a disagreement with the exact criterion is C03's
	// business, here the pair is only counted and not judged.
	agree := true
	c.Guard(sub, cas, det(map[string]any{"call": "CrossingSign"}), func() {
		agree = s2.CrossingSign(a0, a1, b0, b1) == s2.Cross
	})
	if !agree {
		t.implDisagree++
		return
	}

	var res [8]s2.Point
	okCall := false
	c.Guard(sub, cas, det(map[string]any{"call": "Intersection, 8 orderings"}), func() {
		for k, o := range c16Orderings {
			res[k] = s2.Intersection(pts[o[0]], pts[o[1]], pts[o[2]], pts[o[3]])
		}
		okCall = true
	})
	if !okCall {
		return
	}
	var stab, exa s2.Point
	stabOK := false
	c.Guard(sub, cas, det(map[string]any{"call": "intersectionStable / intersectionExact"}), func() {
		stab, stabOK = s2.VerifIntersectionStable(a0, a1, b0, b1)
		exa = s2.VerifIntersectionExact(a0, a1, b0, b1)
	})
	path := "exact"
	if stabOK {
		path = "stable"
		t.pathStable++
	} else {
		t.pathExact++
	}

	r := res[0]

	// (0) finite coordinates, in every ordering.
	for k := 0; k < 8; k++ {
		if f := res[k].X + res[k].Y + res[k].Z; math.IsNaN(f) || math.IsInf(f, 0) {
			c.Violate(sub, "wrong-answer", fmt.Sprintf("Intersection result has NaN/Inf coordinates (path=%s, class=%s)", path, class), cas,
				c16Detail(c.Tier, a0, a1, b0, b1, map[string]any{"ordering": c16OrderNames[k], "result": fmt.Sprint(res[k].Vector), "stable_stage_accepted": stabOK, "stable_stage_result": fmt.Sprint(stab.Vector), "exact_stage_result": fmt.Sprint(exa.Vector)}))
			return
		}
	}
	// (1) bit-identical under reversal / swap (documented properties (1) and (2)).
	for k := 1; k < 8; k++ {
		if res[k].Vector != r.Vector {
			c.Violate(sub, "wrong-answer", fmt.Sprintf("Intersection is not invariant under reversing/swapping the edges (path=%s, class=%s)", path, class), cas,
				c16Detail(c.Tier, a0, a1, b0, b1, map[string]any{"ordering": c16OrderNames[k], "result_first_ordering": c16P(r), "result_this_ordering": c16P(res[k])}))
			break
		}
	}
	// (2) unit length.
	n2 := exact.FromVector(r.Vector).Norm2().Float()
	if dev := math.Abs(n2 - 1); !(dev <= 5e-14) {
		c.Violate(sub, "wrong-answer", fmt.Sprintf("Intersection result is not unit length (path=%s, class=%s)", path, class), cas,
			c16Detail(c.Tier, a0, a1, b0, b1, map[string]any{"result": c16P(r), "norm2": n2}))
	} else if dev > t.maxUnitDev {
		t.maxUnitDev = dev
	}

	if N.IsZero() {
		// Exactly collinear edges: the geodesics coincide.  The documented rule
		// (intersectionExact): the result is one of the endpoints that lie on the
		// other edge.
		t.collinear++
		ok := false
		onEdge := func(e, p0, p1, n exact.V) bool {
			return p0.Cross(e).Dot(n).Sign() >= 0 && e.Cross(p1).Dot(n).Sign() >= 0
		}
		cands := []struct {
			p         s2.Point
			e, p0, p1 exact.V
			n         exact.V
		}{{a0, A0, B0, B1, nb}, {a1, A1, B0, B1, nb}, {b0, B0, A0, A1, na}, {b1, B1, A0, A1, na}}
		for _, q := range cands {
			if r.Vector == q.p.Vector && onEdge(q.e, q.p0, q.p1, q.n) {
				ok = true
			}
		}
		if !ok {
			c.Violate(sub, "wrong-answer", fmt.Sprintf("Intersection result is not an endpoint that lies on the other edge (class=%s)", class), cas,
				c16Detail(c.Tier, a0, a1, b0, b1, map[string]any{"result": c16P(r)}))
		}
		return
	}

	// side of the sphere: the true intersection point s*N lies on both (closed) edges,
	// each shorter than pi, so it has positive dot product with a0+a1 and b0+b1.
	sa := N.Dot(A0.Add(A1)).Sign()
	sb := N.Dot(B0.Add(B1)).Sign()
	if sa == 0 || sa != sb {
		t.hemiSkip++ // hemisphere of X* not decidable by this rule (degenerate); accuracy is still checked up to sign
		sa = 0
	}
	// (3) accuracy of the final result.
	within, units, ds := c16AngleErr(r.Vector, N)
	if units > t.maxErr && !math.IsInf(units, 0) {
		t.maxErr = units
	}
	if !within {
		c.Violate(sub, "bound-exceeded", fmt.Sprintf("Intersection result is farther than 8*2^-53 rad from the exact intersection of the two great circles (path=%s, class=%s)", path, class), cas,
			c16Detail(c.Tier, a0, a1, b0, b1, map[string]any{"result": c16P(r), "error_in_units_of_bound": units, "exact_direction": c16P(s2.Point{Vector: N.Float()})}))
	} else if sa != 0 && ds != sa {
		c.Violate(sub, "wrong-answer", fmt.Sprintf("Intersection result is on the wrong side of the sphere (antipode of the crossing point; path=%s, class=%s)", path, class), cas,
			c16Detail(c.Tier, a0, a1, b0, b1, map[string]any{"result": c16P(r)}))
	}
	// (4) the internal stages on their own.
	if stabOK {
		w, u, _ := c16AngleErr(stab.Vector, N)
		if u > t.maxErrStable && !math.IsInf(u, 0) {
			t.maxErrStable = u
		}
		if !w {
			c.Violate(sub, "bound-exceeded", fmt.Sprintf("intersectionStable accepted a result that is outside its own documented bound of 8*2^-53 rad (class=%s)", class), cas,
				c16Detail(c.Tier, a0, a1, b0, b1, map[string]any{"stable_result": c16P(stab), "error_in_units_of_bound": u}))
		}
	}
	w, u, _ := c16AngleErr(exa.Vector, N)
	if u > t.maxErrExact && !math.IsInf(u, 0) {
		t.maxErrExact = u
	}
	if !w {
		c.Violate(sub, "bound-exceeded", fmt.Sprintf("intersectionExact result is farther than 8*2^-53 rad from the exact intersection, up to sign (class=%s)", class), cas,
			c16Detail(c.Tier, a0, a1, b0, b1, map[string]any{"exact_path_result": c16P(exa), "error_in_units_of_bound": u, "stable_path_accepted": stabOK}))
	}
	if t.kept%4001 == 7 {
		c.Sample(map[string]any{"sub": sub, "a0": c16P(a0), "a1": c16P(a1), "b0": c16P(b0), "b1": c16P(b1), "result": c16P(r), "path": path, "error_in_units_of_bound": units})
	}
}

// c16At returns the point at angle h from x in the tangent direction dir.
func c16At(x s2.Point, dir r3.Vector, h float64) s2.Point {
	return s2.Point{Vector: x.Mul(math.Cos(h)).Add(dir.Mul(math.Sin(h))).Normalize()}
}

// c16Frame returns a tangent frame at x rotated by az.
func c16Frame(x s2.Point, az float64) (u, v r3.Vector) {
	u0 := s2.Ortho(x).Vector
	v0 := x.Cross(u0).Normalize()
	u = u0.Mul(math.Cos(az)).Add(v0.Mul(math.Sin(az))).Normalize()
	v = x.Cross(u).Normalize()
	return
}

func c16XPoints(c *core.Ctx) []s2.Point {
	if !c.Quick() {
		return lattice.PStruct(2)
	}
	var out []s2.Point
	g := []uint32{0, 1, 1 << 30, 1<<30 + 1, 1 << 31}
	for f := 0; f < 6; f++ {
		for _, si := range g {
			for _, ti := range g {
				out = append(out, lattice.FaceSiTiPoint(f, si, ti))
			}
		}
	}
	out = append(out, s2.OriginPoint(), lattice.LL(37.25, -122.5))
	return lattice.Dedup(out)
}

func runC16(c *core.Ctx) {
	c.Rule = "crossing pairs are constructed on five lattices: (through-point) edges through a common point X of the structural point alphabet, full product of azimuths x crossing angles {pi/2 .. 1e-15} x half-lengths of each edge {1e-15 .. pi/2-1e-3} x asymmetry of the first edge; (tiny) edges of half-length 1e-300 .. 1e-8 and long x tiny mixes around the six axis points; (endpoint-ulp) one endpoint of b running over all 125 two-ulp neighbours of the midpoint or an endpoint of a; (collinear) every 4-subset and pairing of exactly coplanar points on eight exact planes; (antipodal) edges with half-length pi/2-1e-6 .. pi/2-1e-15. Only pairs for which the exact reference criterion (refmodel.CrossingSign with symbolic perturbation) says Cross are kept and evaluated with all 8 orderings; non-trivial = distinct kept crossing pairs"
	c.Assume = []string{
		"reference X* = (a0 x a1) x (b0 x b1) in exact big.Int arithmetic; the bound is tested as |r x X*|^2 <= 2^-100 |r|^2 |X*|^2 (sin >= bound implies angle >= bound, so no result inside the bound can be accused)",
		"pairs for which golang/geo's own CrossingSign is not Cross are outside Intersection's documented precondition and are counted, not judged (C03 judges CrossingSign)",
		"for exactly collinear edges (X* = 0) the assertion is the rule documented in intersectionExact: the result is an endpoint lying on the other edge",
		"unit length is IsUnit's tolerance |norm^2 - 1| <= 5e-14",
		"nothing is asserted off the lattice (DESIGN L1)",
	}
	c16ReplayTier(c)
	st := newC16State(c)
	c16ThroughPoint(c, st)
	c16Tiny(c, st)
	c16TinyAtEndpoint(c, st)
	c16EndpointUlp(c, st)
	c16Collinear(c, st)
	c16Antipodal(c, st)

	var all c16Tally
	for sub, t := range st.tot {
		c.Count(sub+"/pairs_built", t.built)
		c.Count(sub+"/rejected_reference_says_no_crossing", t.notCross)
		c.Count(sub+"/kept_crossing_pairs", t.kept)
		c.Count(sub+"/path_stable_accepted", t.pathStable)
		c.Count(sub+"/path_exact_fallback", t.pathExact)
		c.Count(sub+"/exactly_collinear", t.collinear)
		c.Count(sub+"/hemisphere_rule_undecidable", t.hemiSkip)
		c.Count(sub+"/impl_CrossingSign_disagrees_not_judged", t.implDisagree)
		c.Count(sub+"/rejected_edge_with_identical_or_antipodal_endpoint_directions", t.badEdge)
		c.Count(sub+"/class_tiny_exact_intersection_vector", t.underflow)
		c.Note(sub+"/max_error_in_units_of_bound", map[string]float64{"final": t.maxErr, "stable_stage": t.maxErrStable, "exact_stage": t.maxErrExact, "max_abs_norm2_minus_1": t.maxUnitDev})
		all.kept += t.kept
		all.pathStable += t.pathStable
		all.pathExact += t.pathExact
		all.collinear += t.collinear
		all.built += t.built
	}
	c.Eval(int(all.built))
	if c.OnlySub == "" {
		if all.pathStable == 0 || all.pathExact == 0 || all.collinear == 0 {
			panic(core.HarnessError(fmt.Sprintf("C16 vacuous: stable=%d exact=%d collinear=%d", all.pathStable, all.pathExact, all.collinear)))
		}
		for _, sub := range []string{"through-point", "tiny", "endpoint-ulp", "collinear", "antipodal"} {
			if t := st.tot[sub]; t == nil || t.kept == 0 {
				panic(core.HarnessError("C16 vacuous: no crossing pair kept in " + sub))
			}
		}
	}
}

// ---- lattice 1: edges through a common point -----------------------------------------

func c16ThroughPoint(c *core.Ctx, st *c16State) {
	const sub = "through-point"
	xs := c16XPoints(c)
	az := core.Pick(c, []float64{0, 0.7}, []float64{0, 0.7, 2.1})
	phi := core.Pick(c,
		[]float64{math.Pi / 2, 1, 1e-3, 1e-6, 1e-9, 1e-12, 1e-15},
		[]float64{math.Pi / 2, 1, 0.3, 1e-2, 1e-3, 1e-4, 1e-6, 1e-7, 1e-9, 1e-10, 1e-12, 1e-13, 1e-14, 1e-15, 3e-16})
	hl := core.Pick(c,
		[]float64{1e-15, 1e-8, 1e-3, 1, math.Pi/2 - 1e-3},
		[]float64{1e-15, 1e-12, 1e-8, 1e-5, 1e-3, 0.1, 1, math.Pi/2 - 1e-3})
	asym := core.Pick(c, []float64{1}, []float64{1, 1e-3})
	c.Note(sub+"/lattice", map[string]int{"X": len(xs), "azimuths": len(az), "crossing_angles": len(phi), "half_lengths": len(hl), "asymmetry": len(asym)})
	cut := false
	c.ParallelFor(len(xs), func(i int) {
		var t c16Tally
		defer st.merge(sub, &t)
		x := xs[i]
		j := 0
		for _, azv := range az {
			u, v := c16Frame(x, azv)
			for _, ph := range phi {
				w := u.Mul(math.Cos(ph)).Add(v.Mul(math.Sin(ph)))
				for _, ha := range hl {
					for _, hb := range hl {
						for _, as := range asym {
							j++
							if c.Skip(sub, i, j) {
								continue
							}
							if c.Expired() {
								cut = true
								return
							}
							a0, a1 := c16At(x, u, -ha*as), c16At(x, u, ha)
							b0, b1 := c16At(x, w, -hb), c16At(x, w, hb)
							st.eval(sub, []int{i, j}, a0, a1, b0, b1, &t)
						}
					}
				}
			}
		}
	})
	if cut {
		c.CapHit(sub + ": wall budget reached")
	}
}

// ---- lattice 2: tiny edges around the axis points ---------------------------------------

func c16Tiny(c *core.Ctx, st *c16State) {
	const sub = "tiny"
	axes := []r3.Vector{{X: 1}, {Y: 1}, {Z: 1}, {X: -1}, {Y: -1}, {Z: -1}}
	tiny := core.Pick(c,
		[]float64{1e-300, 1e-200, 1e-160, 1e-154, 1e-100, 1e-80, 1e-77, 1e-30, 1e-15, 1e-8},
		[]float64{5e-324, 1e-310, 1e-300, 1e-250, 1e-200, 1e-170, 1e-160, 1e-157, 1e-154, 1e-150, 1e-120, 1e-100, 1e-80, 1e-78, 1e-77, 1e-60, 1e-40, 1e-30, 1e-20, 1e-15, 1e-8})
	long := core.Pick(c, []float64{1e-3, 1, 1.5}, []float64{1e-5, 1e-3, 0.1, 1, 1.5, math.Pi/2 - 1e-3})
	phi := core.Pick(c, []float64{math.Pi / 2, 1, 1e-3, 1e-9, 1e-15}, []float64{math.Pi / 2, 1, 0.1, 1e-3, 1e-6, 1e-9, 1e-12, 1e-15})
	has := append(append([]float64(nil), tiny...), long...)
	c.Note(sub+"/lattice", map[string]int{"axis_points": 6, "frames": 2, "half_length_a": len(has), "half_length_b_tiny": len(tiny), "crossing_angles": len(phi)})
	c.ParallelFor(len(axes), func(i int) {
		var t c16Tally
		defer st.merge(sub, &t)
		x := axes[i]
		j := 0
		for fr := 0; fr < 2; fr++ {
			u := axes[(i+1+fr)%3]
			v := x.Cross(u) // exact axis vector
			for ai, ha := range has {
				for _, hb := range tiny {
					for _, ph := range phi {
						j++
						if c.Skip(sub, i, j) {
							continue
						}
						var a0, a1 s2.Point
						if ai < len(tiny) {
							a0 = s2.Point{Vector: x.Sub(u.Mul(ha))}
							a1 = s2.Point{Vector: x.Add(u.Mul(ha))}
						} else { // long edge lying exactly in the plane v = 0
							a0 = s2.Point{Vector: x.Mul(math.Cos(ha)).Sub(u.Mul(math.Sin(ha)))}
							a1 = s2.Point{Vector: x.Mul(math.Cos(ha)).Add(u.Mul(math.Sin(ha)))}
						}
						w := u.Mul(hb * math.Cos(ph)).Add(v.Mul(hb * math.Sin(ph)))
						b0 := s2.Point{Vector: x.Sub(w)}
						b1 := s2.Point{Vector: x.Add(w)}
						st.eval(sub, []int{i, j}, a0, a1, b0, b1, &t)
					}
				}
			}
		}
	})
}

// ---- lattice 3: crossings at / next to endpoints -------------------------------------------

func c16EndpointUlp(c *core.Ctx, st *c16State) {
	const sub = "endpoint-ulp"
	all := c16XPoints(c)
	stride := core.Pick(c, 16, 6)
	var xs []s2.Point
	for i := 0; i < len(all); i += stride {
		xs = append(xs, all[i])
	}
	phi := []float64{math.Pi / 2, 1e-3, 1e-9}
	hl := core.Pick(c, []float64{1e-8, 1e-3, 1}, []float64{1e-8, 1e-3, 1, math.Pi/2 - 1e-3})
	c.Note(sub+"/lattice", map[string]int{"X": len(xs), "crossing_angles": len(phi), "half_lengths": len(hl), "anchor_points": 3, "ulp_neighbours": 125, "far_endpoints": 2})
	cut := false
	c.ParallelFor(len(xs), func(i int) {
		var t c16Tally
		defer st.merge(sub, &t)
		x := xs[i]
		u, v := c16Frame(x, 0.4)
		j := 0
		for _, ph := range phi {
			for _, ha := range hl {
				a0, a1 := c16At(x, u, -ha), c16At(x, u, ha)
				for _, hb := range hl {
					for side := 0; side < 2; side++ {
						sg := 1.0
						if side == 1 {
							sg = -1
						}
						w := u.Mul(math.Cos(ph)).Add(v.Mul(sg * math.Sin(ph)))
						b1 := c16At(x, w, -hb) // behind the anchor, on one side of a
						for an, anchor := range []s2.Point{x, a0, a1} {
							_ = an
							for _, b0 := range lattice.PUlp(anchor, 2) {
								j++
								if c.Skip(sub, i, j) {
									continue
								}
								if c.Expired() {
									cut = true
									return
								}
								if !b0.IsUnit() {
									continue
								}
								st.eval(sub, []int{i, j}, a0, a1, b0, b1, &t)
							}
						}
					}
				}
			}
		}
	})
	if cut {
		c.CapHit(sub + ": wall budget reached")
	}
}

// ---- lattice 4: exactly collinear overlapping edges -----------------------------------------

// c16PlanePoints returns points lying exactly on the plane with the given small
// integer normal, in increasing angular order.
func c16PlanePoints(c *core.Ctx, plane int) []s2.Point {
	ts := core.Pick(c,
		[]float64{0, 1e-15, 1e-8, 1e-3, 0.3, 1, 1.5, 2, 3, 3.14},
		[]float64{0, 1e-15, 1e-12, 1e-8, 1e-5, 1e-3, 0.1, 0.3, 1, 1.5, 1.5707963, 2, 2.5, 3, 3.14, 3.1415926})
	var out []s2.Point
	for _, t := range ts {
		s, co := math.Sin(t), math.Cos(t)
		var p r3.Vector
		mk := func(x, y, z float64) r3.Vector {
			n := math.Sqrt(x*x + y*y + z*z)
			return r3.Vector{X: x / n, Y: y / n, Z: z / n}
		}
		switch plane {
		case 0:
			p = r3.Vector{X: co, Y: s, Z: 0}
		case 1:
			p = r3.Vector{X: 0, Y: co, Z: s}
		case 2:
			p = r3.Vector{X: s, Y: 0, Z: co}
		case 3: // x = y
			p = mk(s, s, co)
		case 4: // x = -y
			p = mk(s, -s, co)
		case 5: // x = z
			p = mk(s, co, s)
		case 6: // y = z
			p = mk(co, s, s)
		case 7: // x = 2y
			p = mk(2*s, s, co)
		}
		out = append(out, s2.Point{Vector: p})
	}
	return lattice.Dedup(out)
}

func c16Collinear(c *core.Ctx, st *c16State) {
	const sub = "collinear"
	normals := []r3.Vector{{Z: 1}, {X: 1}, {Y: 1}, {X: 1, Y: -1}, {X: 1, Y: 1}, {X: 1, Z: -1}, {Y: 1, Z: -1}, {X: 1, Y: -2}}
	deg := lattice.PDeg(!c.Quick())
	c.ParallelFor(len(normals), func(i int) {
		var t c16Tally
		defer st.merge(sub, &t)
		pts := c16PlanePoints(c, i)
		nv := exact.FromVector(normals[i])
		for _, p := range deg {
			if exact.FromVector(p.Vector).Dot(nv).Sign() == 0 {
				pts = append(pts, p)
			}
		}
		pts = lattice.Dedup(pts)
		for _, p := range pts {
			if exact.FromVector(p.Vector).Dot(nv).Sign() != 0 {
				panic(core.HarnessError("C16 collinear: constructed point is not exactly on its plane"))
			}
		}
		n := len(pts)
		j := 0
		for p := 0; p < n; p++ {
			for q := p + 1; q < n; q++ {
				for r := q + 1; r < n; r++ {
					for s := r + 1; s < n; s++ {
						for pair := 0; pair < 3; pair++ {
							j++
							if c.Skip(sub, i, j) {
								continue
							}
							var a0, a1, b0, b1 s2.Point
							switch pair {
							case 0:
								a0, a1, b0, b1 = pts[p], pts[r], pts[q], pts[s]
							case 1:
								a0, a1, b0, b1 = pts[p], pts[q], pts[r], pts[s]
							default:
								a0, a1, b0, b1 = pts[p], pts[s], pts[q], pts[r]
							}
							st.eval(sub, []int{i, j}, a0, a1, b0, b1, &t)
						}
					}
				}
			}
		}
	})
}

// ---- lattice 5: nearly antipodal endpoints ----------------------------------------------------

func c16Antipodal(c *core.Ctx, st *c16State) {
	const sub = "antipodal"
	all := c16XPoints(c)
	stride := core.Pick(c, 8, 3)
	var xs []s2.Point
	for i := 0; i < len(all); i += stride {
		xs = append(xs, all[i])
	}
	delta := []float64{1e-6, 1e-9, 1e-12, 1e-15}
	phi := core.Pick(c,
		[]float64{math.Pi / 2, 1, 1e-3, 1e-6, 1e-9, 1e-12, 1e-15},
		[]float64{math.Pi / 2, 1, 0.3, 1e-2, 1e-3, 1e-4, 1e-6, 1e-7, 1e-9, 1e-10, 1e-12, 1e-13, 1e-14, 1e-15})
	hb := []float64{1e-15, 1e-8, 1e-3, 1, math.Pi/2 - 1e-3}
	for _, d := range delta {
		hb = append(hb, math.Pi/2-d)
	}
	c.Note(sub+"/lattice", map[string]int{"X": len(xs), "distance_from_antipodal": len(delta), "crossing_angles": len(phi), "half_length_b": len(hb), "azimuths": 2})
	cut := false
	c.ParallelFor(len(xs), func(i int) {
		var t c16Tally
		defer st.merge(sub, &t)
		x := xs[i]
		j := 0
		for _, azv := range []float64{0.2, 1.9} {
			u, v := c16Frame(x, azv)
			for _, d := range delta {
				ha := math.Pi/2 - d
				a0, a1 := c16At(x, u, -ha), c16At(x, u, ha)
				for _, ph := range phi {
					w := u.Mul(math.Cos(ph)).Add(v.Mul(math.Sin(ph)))
					for _, h := range hb {
						j++
						if c.Skip(sub, i, j) {
							continue
						}
						if c.Expired() {
							cut = true
							return
						}
						b0, b1 := c16At(x, w, -h), c16At(x, w, h)
						st.eval(sub, []int{i, j}, a0, a1, b0, b1, &t)
					}
				}
			}
		}
	})
	if cut {
		c.CapHit(sub + ": wall budget reached")
	}
}

// c16ReplayTier: case indices are lattice coordinates of the tier that recorded
// them, so a replay switches to that tier's lattice.
func c16ReplayTier(c *core.Ctx) {
	if c.OnlySub == "" {
		return
	}
	if m, ok := c.ReplayDetail.(map[string]any); ok {
		if t, ok := m["tier"].(string); ok && (t == "quick" || t == "thorough") {
			c.Tier = t
		}
	}
}
