package checks

import (
	"fmt"
	"math"
	"sort"
	"sync"

	"github.com/golang/geo/r2"
	"github.com/golang/geo/r3"
	"github.com/golang/geo/s1"
	"github.com/golang/geo/s2"

	"verif/mc/core"
)

// C20 — approximation operators stay within the tolerance they declare.
//
// Engine E3.  Sub-checks: tessellate (EdgeTessellator both directions, both
// projections), tessellate-chain (appending to an existing chain, wrapping),
// projection (Project/Unproject round trip, wrapping), subsample
// (Polyline.SubsampleVertices), snap-cellid, snap-intlatlng.  All measurements
// are made by the reference arithmetic of c20_ref.go.

func init() {
	Registry["C20"] = &Check{Level: "exploration", QuickBudget: 90, ThoroughBudget: 720, Run: runC20}
}

const (
	c20Fraction = 0.31215691082248312 // documented evaluation fraction of the error estimate
	c20Scale    = 0.83829992569888509 // documented tessellationScaleFactor
	c20MinTol   = 1e-13               // documented minimum tolerance
)

type c20LL struct{ lat, lng float64 } // degrees

func c20PointDeg(l c20LL) s2.Point {
	sp, cp := c20SinCosPi(l.lat / 180)
	sl, cl := c20SinCosPi(l.lng / 180)
	return s2.Point{Vector: r3.Vector{X: cp * cl, Y: cp * sl, Z: sp}}
}

func c20LatDeg(p s2.Point) float64 { return math.Atan2(p.Z, math.Hypot(p.X, p.Y)) * 180 / math.Pi }

// c20Fuse wraps a projection and blows (with a recoverable panic) when the
// tessellator evaluates it implausibly often: an unbounded recursion would
// otherwise end in a fatal stack overflow that no recover can catch.  The lattice
// keeps the expected number of output vertices below ~4100 (<= ~50 000
// evaluations); the fuse is 16 times that.
type c20Fuse struct {
	s2.Projection
	calls int
}

type c20Runaway struct{}

const c20FuseLimit = 800000

func (f *c20Fuse) tick() {
	f.calls++
	if f.calls > c20FuseLimit {
		panic(c20Runaway{})
	}
}

func (f *c20Fuse) Interpolate(t float64, a, b r2.Point) r2.Point {
	f.tick()
	return f.Projection.Interpolate(t, a, b)
}

func (f *c20Fuse) Project(p s2.Point) r2.Point {
	f.tick()
	return f.Projection.Project(p)
}

// c20Fused runs body with a fused projection; it reports whether the fuse blew.
func c20Fused(impl s2.Projection, body func(p s2.Projection)) (blown bool) {
	f := &c20Fuse{Projection: impl}
	defer func() {
		if r := recover(); r != nil {
			if _, ok := r.(c20Runaway); ok {
				blown = true
				return
			}
			panic(r)
		}
	}()
	body(f)
	return false
}

// worst keeps, per violation descriptor, the worst case and the number of cases.
type c20Worst struct {
	mu sync.Mutex
	m  map[string]*c20W
}

type c20W struct {
	kind   string
	score  float64
	idx    []int
	detail any
	n      int
}

func (w *c20Worst) add(desc, kind string, score float64, idx []int, detail func() any) {
	w.mu.Lock()
	defer w.mu.Unlock()
	if w.m == nil {
		w.m = map[string]*c20W{}
	}
	e := w.m[desc]
	if e == nil {
		e = &c20W{kind: kind, score: math.Inf(-1)}
		w.m[desc] = e
	}
	e.n++
	if score > e.score {
		e.score, e.idx, e.detail = score, append([]int(nil), idx...), detail()
	}
}

func (w *c20Worst) flush(c *core.Ctx, sub string) {
	var keys []string
	for k := range w.m {
		keys = append(keys, k)
	}
	sort.Strings(keys)
	for _, k := range keys {
		e := w.m[k]
		for i := 0; i < e.n && i < 1000000; i++ {
			c.Violate(sub, e.kind, k, e.idx, e.detail)
		}
	}
}

func runC20(c *core.Ctx) {
	if msg := c20SelfTest(); msg != "" {
		panic(core.HarnessError("C20 reference self-test: " + msg))
	}
	c.Rule = "tessellate: every ordered pair of a lat/lng alphabet (equator-symmetric pairs, the 45:-90/45:90 worst case, antimeridian crossers, near-pole, >90 degree edges, plus short edges of 1e-6..1e-3 rad) x {PlateCarree, Mercator} x scales x both directions x a tolerance alphabet derived from the edge itself: measured deviation d and decision estimate e of the edge, its halves and quarters, times {0.80..1.25} resp. {0.999,1.001}x{1,1/0.8383}, plus absolute tolerances 1e-13..1; achieved error = max over 33 fractions of every output segment of the reference distance between the unprojected planar point and the geodesic side; subsample: all polylines of <= 6 vertices over 7-point alphabets x 6 tolerances; snappers: all levels 0..30 / exponents 0..10 x structural points, cell vertices, half-grid points.  Non-trivial: the operator actually approximated (tessellation emitted an interior vertex, subsampling dropped a vertex, snapping moved the point); distinct cases are distinct lattice coordinates"
	c.Assume = []string{
		"reference distances carry at most 2e-15 rad error (float64 layer checked against 256-bit arithmetic in the self-test; every reported excess is re-measured at 256 bits)",
		"the implementation is allowed the rounding of its own Project/Unproject: 16 eps for Plate Carree, 16 eps (1+1/cos lat) for Mercator, on top of the tolerance",
		"r3.Vector Add/Sub/Cross/Dot/Norm are plain float64 formulas",
	}
	c20Tessellate(c)
	c20Chains(c)
	c20Projection(c)
	c20Subsample(c)
	c20Snappers(c)
}

// ---------------------------------------------------------------------------
// tessellation

func c20Alphabet(c *core.Ctx) []c20LL {
	q := []c20LL{{0, 0}, {45, -90}, {45, 90}, {30, -22.5}, {30, 22.5}, {-30, 22.5}, {10, 170}, {-10, -170}, {60, 179.9},
		{85, 0}, {-85, 100}, {89.9, -45}, {0.001, 0.001}, {-45, 135}, {20, -100}, {-60, -22.5}}
	if c.Quick() {
		return q
	}
	t := append(q, []c20LL{{-45, -90}, {0, 90}, {0, -179.999}, {1, 45}, {-1, 135}, {15, -135}, {-15, 60}, {60, -60}, {-60, 150}, {75, 30},
		{-75, -150}, {80, 120}, {-80, -30}, {89.9, 135}, {-89.9, 0}, {45, 0}, {-45, 45}, {30, 180}, {-30, -180}, {5, 179.999}, {-5, -90},
		{70, -179.9}, {22.5, 67.5}, {-22.5, -67.5}}...)
	return t
}

type c20Edge struct {
	a, b  c20LL
	short bool
}

func c20Edges(c *core.Ctx) []c20Edge {
	al := c20Alphabet(c)
	var out []c20Edge
	for i, a := range al {
		for j, b := range al {
			if i == j && i > 1 {
				continue // two degenerate edges are enough
			}
			if c20Angle(c20PointDeg(a).Vector, c20PointDeg(b).Vector) > math.Pi-0.05 {
				continue // (nearly) antipodal: the geodesic is not defined
			}
			out = append(out, c20Edge{a, b, false})
		}
	}
	// short edges, so that the small absolute tolerances subdivide a bounded number of times
	bases := core.Pick(c, []c20LL{{45, -90}, {0, 0}, {60, 180}, {85, 10}}, []c20LL{{45, -90}, {0, 0}, {60, 180}, {85, 10}, {30, 22.5}, {-70, -100}, {89.9, 0}, {-1e-5, 179.99999}})
	lens := core.Pick(c, []float64{1e-5, 1e-3}, []float64{1e-6, 1e-5, 1e-4, 1e-3})
	for _, b := range bases {
		for _, l := range lens {
			d := l * 180 / math.Pi
			for _, dir := range [][2]float64{{0, 1}, {1, 1}, {-1, 1}, {1, 0}} {
				p := c20LL{b.lat - d*dir[0]/2, b.lng - d*dir[1]/2}
				q := c20LL{b.lat + d*dir[0]/2, b.lng + d*dir[1]/2}
				if math.Abs(p.lat) > 90 || math.Abs(q.lat) > 90 {
					continue
				}
				out = append(out, c20Edge{p, q, true}, c20Edge{q, p, true})
			}
		}
	}
	return out
}

// c20MaxAbsLatDeg is the largest |latitude| reached on the geodesic arc ab.
func c20MaxAbsLatDeg(a, b r3.Vector) float64 {
	best := math.Max(math.Abs(c20LatDeg(s2.Point{Vector: a})), math.Abs(c20LatDeg(s2.Point{Vector: b})))
	n := a.Cross(b)
	if n.Norm2() == 0 {
		return best
	}
	// the two points of the great circle that are closest to the poles
	z := r3.Vector{X: 0, Y: 0, Z: 1}
	m := z.Sub(n.Mul(n.Dot(z) / n.Norm2()))
	if m.Norm2() == 0 {
		return best
	}
	for _, ap := range []r3.Vector{m, m.Mul(-1)} {
		if a.Cross(ap).Dot(n) >= 0 && ap.Cross(b).Dot(n) >= 0 {
			best = math.Max(best, math.Abs(c20LatDeg(s2.Point{Vector: ap})))
		}
	}
	return best
}

// c20MercatorLatLimit: the Mercator plane cannot hold the poles.  Documented:
// "this will cause problems if you tessellate a Mercator edge where one endpoint
// is a pole ... clip the edge first so that the y coordinate is no more than
// about 5 * maxX" (|lat| < 89.99999 degrees).  The lattice keeps every point of
// a Mercator edge below 89.95 degrees.
const c20MercatorLatLimit = 89.95

// c20Sub is one sub-edge of the implementation's bisection tree.
type c20Sub struct {
	pa, pb r2.Point
	a, b   r3.Vector
}

// c20Split bisects a sub-edge the way the documented algorithm does: at the
// geodesic midpoint when projecting, at the planar midpoint when unprojecting.
func c20Split(pr c20Proj, e c20Sub, projected bool) (c20Sub, c20Sub) {
	var mid r3.Vector
	var pmid r2.Point
	if projected {
		m := e.a.Add(e.b)
		mid = m.Mul(1 / m.Norm())
		pmid = pr.wrap(e.pa, pr.project(s2.Point{Vector: mid}))
	} else {
		pmid = c20Lerp(e.pa, e.pb, 0.5)
		mid = pr.unproject(pmid).Vector
	}
	return c20Sub{e.pa, pmid, e.a, mid}, c20Sub{pmid, pr.wrap(pmid, e.pb), mid, e.b}
}

// c20Dev is the deviation of the straight planar segment from the geodesic ab:
// max over n+1 fractions of dist(unproject(lerp), arc).
func c20Dev(pr c20Proj, pa, pb r2.Point, a, b r3.Vector, n int) (float64, float64) {
	worst, at := 0.0, 0.0
	for k := 0; k <= n; k++ {
		t := float64(k) / float64(n)
		d := c20DistToArc(pr.unproject(c20Lerp(pa, pb, t)).Vector, a, b)
		if d > worst {
			worst, at = d, t
		}
	}
	return worst, at
}

// c20Est is the documented decision quantity: the larger parametric error at the
// two evaluation fractions.
func c20Est(pr c20Proj, e c20Sub) float64 {
	m := 0.0
	for _, t := range []float64{c20Fraction, 1 - c20Fraction} {
		g := c20Slerp(e.a, e.b, t)
		q := pr.unproject(c20Lerp(e.pa, e.pb, t)).Vector
		m = math.Max(m, c20Angle(g, q))
	}
	return m
}

func c20Tolerances(pr c20Proj, root c20Sub, projected bool, quick bool) (tols []float64, d0 float64) {
	subs := []c20Sub{root}
	if c20Angle(root.a, root.b) > 0 {
		h1, h2 := c20Split(pr, root, projected)
		q1, q2 := c20Split(pr, h1, projected)
		q3, q4 := c20Split(pr, h2, projected)
		subs = append(subs, h1, h2, q1, q2, q3, q4)
	}
	// The number of output vertices grows like sqrt(E/t) where E is the error of
	// the undivided edge as the algorithm sees it (the parametric estimate, which
	// can be large where the geometric deviation is zero, e.g. along a meridian):
	// tolerances that would need more than ~2000 vertices are left out.
	e0 := c20Est(pr, root)
	d0, _ = c20Dev(pr, root.pa, root.pb, root.a, root.b, 64)
	budget := math.Max(d0, e0)
	set := map[float64]bool{}
	add := func(t float64) {
		if math.IsNaN(t) || math.IsInf(t, 0) {
			return
		}
		if t < c20MinTol {
			t = c20MinTol
		}
		if t > 4 || budget/t > 4e6 {
			return
		}
		set[t] = true
	}
	for i, s := range subs {
		d, _ := c20Dev(pr, s.pa, s.pb, s.a, s.b, 64)
		if quick && (i == 2 || i == 4 || i == 5) {
			continue
		}
		for _, f := range []float64{0.80, 0.84, 0.90, 0.99, 1.00, 1.01, 1.10, 1.19, 1.25} {
			add(d * f)
		}
		e := c20Est(pr, s)
		for _, f := range []float64{0.999, 1.001} {
			add(e * f)
			add(e * f / c20Scale)
		}
	}
	for _, t := range []float64{1e-13, 1e-11, 1e-9, 1e-7, 1e-5, 1e-3, 0.1, 1} {
		add(t)
	}
	for t := range set {
		tols = append(tols, t)
	}
	sort.Float64s(tols)
	return tols, d0
}

type c20TessStats struct {
	cases, nontrivial, maxVerts   int64
	accepted, rejectedTop         int64
	ratioOver1, ratioOverScale    int64
	maxRatio                      float64
	maxEndpointErr                float64
	bigConfirmations, bigRefuted  int64
	outsideMercator               int64
	hist                          [8]int64 // ratio buckets: <.5, <.8, <.9, <.99, <=1, <=1.1, <=1.193, >1.193
}

func c20Bucket(r float64) int {
	switch {
	case r < 0.5:
		return 0
	case r < 0.8:
		return 1
	case r < 0.9:
		return 2
	case r < 0.99:
		return 3
	case r <= 1:
		return 4
	case r <= 1.1:
		return 5
	case r <= 1/c20Scale+1e-3:
		return 6
	}
	return 7
}

func c20Tessellate(c *core.Ctx) {
	sub := "tessellate"
	edges := c20Edges(c)
	var projs []c20Proj
	for _, sc := range core.Pick(c, []float64{180, 1}, []float64{180, 1, 1 << 30, math.Pi}) {
		projs = append(projs, c20Proj{false, sc}, c20Proj{true, sc})
	}
	var mu sync.Mutex
	tot := &c20TessStats{}
	worst := &c20Worst{}
	c.ParallelFor(len(edges), func(ei int) {
		st := &c20TessStats{}
		ed := edges[ei]
		for pi, pr := range projs {
			if pr.mercator && c20MaxAbsLatDeg(c20PointDeg(ed.a).Vector, c20PointDeg(ed.b).Vector) > c20MercatorLatLimit {
				st.outsideMercator++
				continue // documented: Mercator edges must be clipped away from the poles
			}
			if c.Expired() {
				c.CapHit(sub + ": wall budget reached")
				break
			}
			impl := pr.impl()
			// dir 0: AppendProjected; 1: AppendUnprojected; 2: AppendUnprojected with the
			// x-coordinates given one period up / down ("any real number" is accepted)
			for dir := 0; dir < 3; dir++ {
				if dir == 2 && ei%3 != 0 {
					continue
				}
				projected := dir == 0
				a, b := c20PointDeg(ed.a), c20PointDeg(ed.b)
				pa, pb := pr.fromDeg(ed.a.lat, ed.a.lng), pr.fromDeg(ed.b.lat, ed.b.lng)
				if dir == 2 {
					pa.X += 2 * pr.scale
					pb.X -= 2 * pr.scale
				}
				if !projected {
					// the input is the planar edge; its end points on the sphere are their unprojections
					if math.Abs(math.Abs(math.Remainder(pb.X-pa.X, 2*pr.scale))-pr.scale) < 1e-9*pr.scale {
						continue // exactly half a period apart: the shortest planar edge is ambiguous
					}
					a, b = pr.unproject(pa), pr.unproject(pb)
				}
				root := c20Sub{pa, pr.wrap(pa, pb), a.Vector, b.Vector}
				tols, d0 := c20Tolerances(pr, root, projected, c.Quick())
				for ti, tol := range tols {
					idx := []int{ei, pi, dir, ti}
					if c.Skip(sub, idx...) {
						continue
					}
					c20OneTess(c, sub, idx, pr, impl, ed, projected, a, b, pa, pb, tol, d0, st, worst)
				}
			}
		}
		mu.Lock()
		tot.cases += st.cases
		tot.nontrivial += st.nontrivial
		tot.accepted += st.accepted
		tot.outsideMercator += st.outsideMercator
		tot.ratioOver1 += st.ratioOver1
		tot.ratioOverScale += st.ratioOverScale
		tot.bigConfirmations += st.bigConfirmations
		tot.bigRefuted += st.bigRefuted
		if st.maxVerts > tot.maxVerts {
			tot.maxVerts = st.maxVerts
		}
		tot.maxRatio = math.Max(tot.maxRatio, st.maxRatio)
		tot.maxEndpointErr = math.Max(tot.maxEndpointErr, st.maxEndpointErr)
		for i := range tot.hist {
			tot.hist[i] += st.hist[i]
		}
		mu.Unlock()
	})
	worst.flush(c, sub)
	c.Eval(int(tot.cases))
	c.Nontrivial(int(tot.nontrivial))
	c.Count(sub+"/edges", int64(len(edges)))
	c.Count(sub+"/projections_x_scales", int64(len(projs)))
	c.Count(sub+"/tessellations", tot.cases)
	c.Count(sub+"/with_interior_vertices", tot.nontrivial)
	c.Count(sub+"/edge_accepted_unsubdivided", tot.accepted)
	c.Count(sub+"/edge_x_mercator_skipped_because_the_geodesic_comes_within_0.05_degrees_of_a_pole(documented limitation)", tot.outsideMercator)
	c.Count(sub+"/max_output_vertices", tot.maxVerts)
	c.Count(sub+"/achieved_error_over_tolerance(confirmed at 256 bits)", tot.ratioOver1)
	c.Count(sub+"/achieved_error_over_tolerance/scale_factor", tot.ratioOverScale)
	c.Count(sub+"/candidates_remeasured_at_256_bits", tot.bigConfirmations)
	c.Count(sub+"/candidates_refuted_at_256_bits", tot.bigRefuted)
	names := []string{"<0.5", "0.5-0.8", "0.8-0.9", "0.9-0.99", "0.99-1", "1-1.1", "1.1-1.193", ">1.193"}
	for i, n := range names {
		c.Count(sub+"/achieved_error_to_tolerance_ratio/"+n, tot.hist[i])
	}
	c.Note("tessellate_max_ratio_achieved_error_to_tolerance", tot.maxRatio)
	c.Note("tessellate_max_endpoint_error_rad", tot.maxEndpointErr)
	if c.OnlySub == "" && tot.nontrivial == 0 {
		panic(core.HarnessError("C20 tessellate: no tessellation produced an interior vertex"))
	}
}

func c20OneTess(c *core.Ctx, sub string, idx []int, pr c20Proj, impl s2.Projection, ed c20Edge, projected bool,
	a, b s2.Point, pa, pb r2.Point, tol, d0 float64, st *c20TessStats, worst *c20Worst) {
	dirName := "AppendUnprojected"
	if projected {
		dirName = "AppendProjected"
	}
	base := func() map[string]any {
		return map[string]any{"projection": pr.name(), "scale": pr.scale, "method": dirName,
			"a_latlng_deg": [2]float64{ed.a.lat, ed.a.lng}, "b_latlng_deg": [2]float64{ed.b.lat, ed.b.lng},
			"a_xyz": [3]float64{a.X, a.Y, a.Z}, "b_xyz": [3]float64{b.X, b.Y, b.Z}, "pa": [2]float64{pa.X, pa.Y}, "pb": [2]float64{pb.X, pb.Y},
			"tolerance_rad": tol, "tolerance_float64bits": fmt.Sprintf("%016x", math.Float64bits(tol)), "unsubdivided_deviation_rad": d0}
	}
	c.Guard(sub, idx, func() any { return base() }, func() {
		st.cases++
		var outP []r2.Point
		var outU []s2.Point
		if c20Fused(impl, func(p s2.Projection) {
			tess := s2.NewEdgeTessellator(p, s1.Angle(tol))
			if projected {
				outP = tess.AppendProjected(a, b, nil)
			} else {
				outU = tess.AppendUnprojected(pa, pb, nil)
			}
		}) {
			worst.add("EdgeTessellator."+dirName+"("+pr.name()+"): the bisection does not terminate (more than 800000 projection evaluations for an edge that needs < 4100 vertices; documented recursion depth < 45)", "nontermination", 0, idx, func() any { return base() })
			return
		}
		var maxDev, endErr float64
		var nverts int
		var worstQ r2.Point       // planar point where the deviation is largest
		var worstSeg [2]r3.Vector // geodesic it is compared with (unprojected direction: nearest output segment)
		var allSegs []r3.Vector   // unprojected direction: the output chain
		if projected {
			out := outP
			nverts = len(out)
			if nverts < 2 {
				worst.add("EdgeTessellator."+dirName+": fewer than two vertices returned for an empty input chain", "wrong-answer", 0, idx, func() any { return base() })
				return
			}
			endErr = math.Max(c20Angle(pr.unproject(out[0]).Vector, a.Vector), c20Angle(pr.unproject(out[nverts-1]).Vector, b.Vector))
			for i := 0; i+1 < nverts; i++ {
				if math.Abs(out[i+1].X-out[i].X) > pr.scale*(1+1e-12) {
					d := base()
					d["segment"] = i
					d["x_from"], d["x_to"] = out[i].X, out[i+1].X
					worst.add("EdgeTessellator."+dirName+": consecutive output vertices are more than half a wrap period apart", "wrong-answer", 0, idx, func() any { return d })
					return
				}
				for k := 0; k <= 32; k++ {
					if k == 0 && i > 0 {
						continue
					}
					q := c20Lerp(out[i], out[i+1], float64(k)/32)
					if d := c20DistToArc(pr.unproject(q).Vector, a.Vector, b.Vector); d > maxDev {
						maxDev, worstQ = d, q
					}
				}
			}
			worstSeg = [2]r3.Vector{a.Vector, b.Vector}
		} else {
			out := outU
			nverts = len(out)
			if nverts < 2 {
				worst.add("EdgeTessellator."+dirName+": fewer than two vertices returned for an empty input chain", "wrong-answer", 0, idx, func() any { return base() })
				return
			}
			pbw := pr.wrap(pa, pb)
			endErr = math.Max(c20Angle(out[0].Vector, a.Vector), c20Angle(out[nverts-1].Vector, b.Vector))
			// parameters of the output vertices along the input edge
			ts := make([]float64, nverts)
			dx, dy := pbw.X-pa.X, pbw.Y-pa.Y
			den := dx*dx + dy*dy
			for i := range out {
				allSegs = append(allSegs, out[i].Vector)
				switch {
				case i == 0 || den == 0:
					ts[i] = 0
				case i == nverts-1:
					ts[i] = 1
				default:
					p := pr.wrap(c20Lerp(pa, pbw, 0.5), pr.project(out[i]))
					ts[i] = math.Min(1, math.Max(0, ((p.X-pa.X)*dx+(p.Y-pa.Y)*dy)/den))
				}
			}
			for i := 0; i+1 < nverts; i++ {
				for k := 0; k <= 32; k++ {
					if k == 0 && i > 0 {
						continue
					}
					t := ts[i] + (ts[i+1]-ts[i])*float64(k)/32
					q := c20Lerp(pa, pbw, t)
					cp := pr.unproject(q).Vector
					d := c20DistToArc(cp, out[i].Vector, out[i+1].Vector)
					seg := i
					if d > tol {
						// the chain as a whole is what the input must stay close to
						for j := 0; j+1 < nverts; j++ {
							if dj := c20DistToArc(cp, out[j].Vector, out[j+1].Vector); dj < d {
								d, seg = dj, j
							}
						}
					}
					if d > maxDev {
						maxDev, worstQ, worstSeg = d, q, [2]r3.Vector{out[seg].Vector, out[seg+1].Vector}
					}
				}
			}
		}
		if nverts > 2 {
			st.nontrivial++
		} else {
			st.accepted++
		}
		if int64(nverts) > st.maxVerts {
			st.maxVerts = int64(nverts)
		}
		st.maxEndpointErr = math.Max(st.maxEndpointErr, endErr)
		if eb := math.Max(c20RoundTripBound(pr, c20LatDeg(a)), c20RoundTripBound(pr, c20LatDeg(b))) + c20RefErr; !(endErr <= eb) {
			worst.add("EdgeTessellator."+dirName+": first/last output vertex is not the projection of the edge's end point (to within rounding)", "wrong-answer", endErr, idx, func() any {
				d := base()
				d["endpoint_error_rad"], d["allowed_rad"] = endErr, eb
				return d
			})
			return
		}
		ratio := maxDev / tol
		// What the implementation cannot avoid: the rounding of its own Project /
		// Unproject at the latitudes involved (for Mercator amplified by 1/cos(lat)
		// near the poles, where it exceeds the documented minimum tolerance).  It is
		// added to the implementation's side, like the reference error.
		allow := c20RefErr + math.Max(c20RoundTripBound(pr, c20LatDeg(a)), math.Max(c20RoundTripBound(pr, c20LatDeg(b)), c20RoundTripBound(pr, c20LatDeg(pr.unproject(worstQ)))))
		if maxDev > tol+allow {
			// re-measure at 256 bits before accusing
			st.bigConfirmations++
			bq := pr.bigUnproject(worstQ)
			dBig := c20BigDistToArc(bq, worstSeg[0], worstSeg[1])
			if !projected {
				for j := 0; j+1 < len(allSegs); j++ {
					if c20DistToArc(pr.unproject(worstQ).Vector, allSegs[j], allSegs[j+1]) < dBig+1e-12 {
						dBig = math.Min(dBig, c20BigDistToArc(bq, allSegs[j], allSegs[j+1]))
					}
				}
			}
			ratio = dBig / tol
			if dBig <= tol+allow {
				st.bigRefuted++
			} else {
				st.ratioOver1++
				desc := "EdgeTessellator: output chain deviates from the input edge by more than the requested tolerance, by a factor of at most 1/tessellationScaleFactor = 1.193 (the tolerance is compared with estimateMaxError without the documented scaling)"
				if dBig > tol/c20Scale*(1+1e-3)+allow {
					st.ratioOverScale++
					desc = "EdgeTessellator: output chain deviates from the input edge by more than 1.193 x the requested tolerance (estimateMaxError is not conservative here)"
				}
				worst.add(desc, "bound-exceeded", ratio, idx, func() any {
					d := base()
					d["achieved_error_rad_256bit"] = dBig
					d["achieved_error_rad_float64"] = maxDev
					d["ratio_to_tolerance"] = ratio
					d["rounding_allowance_rad"] = allow
					d["output_vertices"] = nverts
					d["worst_planar_point"] = [2]float64{worstQ.X, worstQ.Y}
					return d
				})
			}
		}
		st.hist[c20Bucket(ratio)]++
		st.maxRatio = math.Max(st.maxRatio, ratio)
		if idx[3] == 3 && idx[0]%37 == 0 && idx[1] < 2 {
			c.Sample(map[string]any{"sub": sub, "projection": pr.name(), "scale": pr.scale, "method": dirName, "a": [2]float64{ed.a.lat, ed.a.lng}, "b": [2]float64{ed.b.lat, ed.b.lng},
				"tolerance": tol, "output_vertices": nverts, "achieved_error": maxDev})
		}
	})
}

// ---------------------------------------------------------------------------
// chains: appending to an existing chain across the wrap line

func c20Chains(c *core.Ctx) {
	sub := "tessellate-chain"
	al := []c20LL{{0, 170}, {0, -170}, {20, 179}, {-30, -175}, {40, 100}, {10, -100}, {60, 0}, {-60, 180}}
	if !c.Quick() {
		al = append(al, c20LL{5, -179.999}, c20LL{-5, 179.999}, c20LL{80, 90}, c20LL{0, 0})
	}
	worst := &c20Worst{}
	var cases, nt int64
	var mu sync.Mutex
	projs := []c20Proj{{false, 180}, {true, 180}, {false, math.Pi}}
	c.ParallelFor(len(al), func(i int) {
		var n, ntl int64
		for j := range al {
			for k := range al {
				if i == j || j == k {
					continue
				}
				for pi, pr := range projs {
					for ti, tol := range []float64{1e-2, 1e-4} {
						idx := []int{i, j, k, pi, ti}
						if c.Skip(sub, idx...) {
							continue
						}
						A, B, C := c20PointDeg(al[i]), c20PointDeg(al[j]), c20PointDeg(al[k])
						if c20Angle(A.Vector, B.Vector) > 3 || c20Angle(B.Vector, C.Vector) > 3 {
							continue
						}
						if pr.mercator && (c20MaxAbsLatDeg(A.Vector, B.Vector) > c20MercatorLatLimit || c20MaxAbsLatDeg(B.Vector, C.Vector) > c20MercatorLatLimit) {
							continue
						}
						detail := func() any {
							return map[string]any{"projection": pr.name(), "scale": pr.scale, "a_latlng_deg": [2]float64{al[i].lat, al[i].lng}, "b_latlng_deg": [2]float64{al[j].lat, al[j].lng}, "c_latlng_deg": [2]float64{al[k].lat, al[k].lng}, "tolerance_rad": tol}
						}
						c.Guard(sub, idx, detail, func() {
							var out []r2.Point
							var n1 int
							if c20Fused(pr.impl(), func(p s2.Projection) {
								tess := s2.NewEdgeTessellator(p, s1.Angle(tol))
								out = tess.AppendProjected(A, B, nil)
								n1 = len(out)
								out = tess.AppendProjected(B, C, out)
							}) {
								worst.add("EdgeTessellator.AppendProjected("+pr.name()+"): the bisection does not terminate", "nontermination", 0, idx, detail)
								return
							}
							n++
							if len(out) > n1+1 {
								ntl++
							}
							if len(out) <= n1 {
								worst.add("EdgeTessellator.AppendProjected: appending an edge to a chain adds no vertex", "wrong-answer", 0, idx, detail)
								return
							}
							for s := 0; s+1 < len(out); s++ {
								if math.Abs(out[s+1].X-out[s].X) > pr.scale*(1+1e-12) {
									worst.add("EdgeTessellator.AppendProjected: consecutive vertices of an appended chain are more than half a wrap period apart", "wrong-answer", 0, idx, detail)
									return
								}
							}
							// the second part must follow BC
							dev := 0.0
							var wq r2.Point
							for s := n1 - 1; s+1 < len(out); s++ {
								for f := 0; f <= 32; f++ {
									q := c20Lerp(out[s], out[s+1], float64(f)/32)
									if d := c20DistToArc(pr.unproject(q).Vector, B.Vector, C.Vector); d > dev {
										dev, wq = d, q
									}
								}
							}
							allow := c20RefErr + math.Max(c20RoundTripBound(pr, al[j].lat), math.Max(c20RoundTripBound(pr, al[k].lat), c20RoundTripBound(pr, c20LatDeg(pr.unproject(wq)))))
							if dev > tol+allow {
								dBig := c20BigDistToArc(pr.bigUnproject(wq), B.Vector, C.Vector)
								if dBig > tol+allow {
									desc := "EdgeTessellator: appended chain deviates from its input edge by more than the requested tolerance, by a factor of at most 1.193"
									if dBig/tol > 1/c20Scale+1e-3 {
										desc = "EdgeTessellator: appended chain deviates from its input edge by more than 1.193 x the requested tolerance"
									}
									worst.add(desc, "bound-exceeded", dBig/tol, idx, func() any {
										m := detail().(map[string]any)
										m["achieved_error_rad_256bit"] = dBig
										return m
									})
								}
							}
						})
					}
				}
			}
		}
		mu.Lock()
		cases += n
		nt += ntl
		mu.Unlock()
	})
	worst.flush(c, sub)
	c.Eval(int(cases))
	c.Nontrivial(int(nt))
	c.Count(sub+"/chains", cases)
}
