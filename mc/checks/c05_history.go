package checks

// C05 sub-check "covering-histories": one *RegionCoverer used again and again.
//
// Every other C05 evaluation builds fresh objects and asks once.  A defect of the kind "state
// left behind by an earlier call" / "a cache that is not refreshed on one path" shows only when an
// object is used, then modified (or asked something else), then used again.  This sub-check
// enumerates ALL operation histories up to a depth over the alphabet below, on a few small worlds
// whose objects straddle the library's thresholds (loops of 8 / 33 / 32 vertices around the
// 32-vertex brute-force threshold, polygons of 2 x 8, 2 x 40 and 13 x 6 vertices around
// maxEdgesPerCell = 10 and the 12-loop linear-search threshold, indexes of 2 .. 60 edges):
//
//   set options   ONE exported field of the ONE shared coverer is assigned (MinLevel = 0 | 3,
//                 MaxLevel = 30 | 7, LevelMod = 1 | 2 | 3, MaxCells = 8 | 2 | 40; every combination
//                 has MinLevel <= MaxLevel); the coverer starts as NewRegionCoverer()
//   mutate        Loop.Invert(), Polygon.Invert(), ShapeIndex.Add(next shape),
//                 CellUnion append-next-block (the union stays valid, not normalized),
//                 CellUnion.Normalize(), cap = cap.AddPoint(next), rect = rect.AddPoint(next)
//   cover         {Covering, CellUnion, InteriorCovering, InteriorCellUnion, FastCovering} of the
//                 shared coverer on the loop / the polygon / the cell union / the cap / the
//                 rectangle, {Covering, CellUnion, FastCovering} on the index through a
//                 ShapeIndexRegion created for the call and through ONE ShapeIndexRegion created
//                 before the index grew
//
// Oracle after every history that ends in a covering call (every prefix that ends in one is a
// history of its own, so every answer of every history is judged):
//   (a) the answer equals what a fresh coverer holding the model's options returns for a fresh
//       region constructed directly in the model's final state (reversed vertex list, first n
//       shapes, the model's cell list, cap / rectangle written down from the added points);
//   (b) the C05 claims hold for it against the reference of the final state (exact containment for
//       loops / polygons, distance to the chains for the index, ...): judged once per distinct
//       (final state, options, method) on the fresh answer, and again on any answer that differs;
//   (c) answers returned earlier in the history are still what they were when they were returned,
//       and the coverer's exported fields are what the history last wrote.
// The model (option values, inversion parities, shape count, cell list, point counts) is advanced
// by the harness, never read back from the library.  No states are merged.
//
// Space (run in this order, so that a cut by the wall budget loses the deepest part):
//   1. every sequence of <= 3 letters of the full alphabet (48) ending in a covering call, per world;
//   2. per world and per region, every longer sequence of <= 4 (quick) / 5 (thorough) letters over
//      that region's own letters (MinLevel=3, LevelMod=2, MaxCells=40 + its mutations + its covering
//      calls): twice-grown indexes, append / Normalize / append, invert / invert, ... with a covering
//      between any two steps;
//   3. thorough: every sequence of 4 letters of the full alphabet in the world "small" (3.4 million;
//      the same for "large" doubles the cost of the tier and was run once while this was written:
//      no difference).
//
// ShapeIndexRegion has no ContainsCell / IntersectsCell / ContainsPoint in this port; the adapter
// c05hIndexRegion supplies the conservative ones (IntersectsCell = the cell is not disjoint from
// the index cells, by a ShapeIndexIterator created for the question; ContainsCell = false), so the
// bounds - the part the coverer starts from - are the library's.

import (
	"fmt"
	"math"
	"os"
	"sort"
	"strings"
	"sync"
	"sync/atomic"
	"time"

	"github.com/golang/geo/r1"
	"github.com/golang/geo/s1"
	"github.com/golang/geo/s2"

	"verif/mc/core"
	"verif/mc/lattice"
)

const c05hSub = "covering-histories"

// The slot "ShapeIndexRegion(kept)": a region created before its index grew.  Its first
// CellUnionBound after an Add used to come from the cell list of before the Add (CellUnionBound
// starts with s.iter.End(), and ShapeIndexIterator.End, unlike Begin, did not apply pending updates:
// D46, repaired in /repo 4eefd17; mutant c05_history_revert_D46_iterator_end.patch).  Neither type's
// documentation says that a region must be re-created after the index changes.

// ---- worlds ------------------------------------------------------------------------------------

type c05hChain struct {
	v      []s2.Point
	closed bool
}

type c05hWorld struct {
	name      string
	loopV     []s2.Point
	loopCtr   s2.Point
	polyLoops [][]s2.Point
	polyCtrs  []s2.Point
	shapes    []c05hChain // shapes[0] is in the index from the start
	cuBase    []s2.CellID
	cuExt     [][]s2.CellID
	capPts    []s2.Point
	rectPts   []s2.LatLng
	rectLng   [][2]int // state k >= 1: indexes of the points whose longitudes are Lng.Lo and Lng.Hi
	fullDepth int      // length up to which ALL sequences over the full alphabet are run
}

// c05hCellBlocks: a valid, not normalized union (all four children of q0 and one child of q1)
// and two blocks that keep it sorted and disjoint; the second completes the children of q1.
func c05hCellBlocks(q s2.CellID) (base []s2.CellID, ext [][]s2.CellID) {
	k := q.Children()
	k0, k1, k2 := k[0].Children(), k[1].Children(), k[2].Children()
	base = []s2.CellID{k0[0], k0[1], k0[2], k0[3], k1[0]}
	ext = [][]s2.CellID{{k1[1], k1[2]}, {k1[3], k2[2].Children()[1]}}
	return
}

func c05hWorlds(c *core.Ctx) []*c05hWorld {
	ctr := c05Centres()
	ll := func(lat, lng float64) s2.LatLng { return s2.LatLngFromDegrees(lat, lng) }
	closedChain := func(p s2.Point, r float64, n int) c05hChain {
		return c05hChain{lattice.GeoRegular(p, r, n, 0.1), true}
	}
	var out []*c05hWorld

	// small: everything below the thresholds; loop without a pole (Invert takes the FullRect shortcut)
	a := &c05hWorld{name: "small", fullDepth: core.Pick(c, 3, 4)}
	a.loopV, a.loopCtr = lattice.GeoRegular(ctr["corner"], 0.3, 8, 0.1), ctr["corner"]
	a.polyLoops = [][]s2.Point{lattice.GeoRegular(ctr["edge"], 0.2, 8, 0), lattice.GeoRegular(ctr["edge"], 0.08, 8, 0.3)}
	a.polyCtrs = []s2.Point{lattice.GeoCirclePoint(ctr["edge"], 0.14, 1), ctr["edge"]}
	var pv []s2.Point
	for i := 0; i < 14; i++ {
		pv = append(pv, lattice.LL(-42+2*float64(i), -101+1.5*float64(i)))
	}
	a.shapes = []c05hChain{
		{[]s2.Point{lattice.LL(5, 40), lattice.LL(8, 47), lattice.LL(2, 52)}, false}, // faces 0 and 1
		closedChain(lattice.LL(60, 100), 0.05, 12),                                   // face 2: after the cells of shape 0
		{pv, false}, // 13 edges on face 4/5: more than maxEdgesPerCell
	}
	a.cuBase, a.cuExt = c05hCellBlocks(lattice.GeoLeaf(ctr["generic"]).Parent(3))
	a.capPts = []s2.Point{ctr["corner"], lattice.GeoCirclePoint(ctr["corner"], 0.2, 1), lattice.GeoCirclePoint(ctr["corner"], 1.8, 4)}
	a.rectPts = []s2.LatLng{ll(10, 170), ll(30, 175), ll(-20, -170)}
	a.rectLng = [][2]int{{0, 0}, {0, 1}, {0, 2}}
	out = append(out, a)

	// large: above the thresholds; the loop contains a pole (Invert recomputes the bound)
	b := &c05hWorld{name: "large", fullDepth: 3}
	b.loopV, b.loopCtr = lattice.GeoRegular(ctr["pole"], 1, 33, 0.1), ctr["pole"]
	g := ctr["generic"]
	b.polyLoops = [][]s2.Point{lattice.GeoRegular(g, 0.3, 40, 0), lattice.GeoRegular(g, 0.1, 40, 0.3)}
	b.polyCtrs = []s2.Point{lattice.GeoCirclePoint(g, 0.2, 1), g}
	b.shapes = []c05hChain{
		closedChain(lattice.LL(5, 5), 0.1, 40), // many index cells on face 0
		{[]s2.Point{lattice.LL(0, 0), lattice.LL(10, 80), lattice.LL(-10, 170), lattice.LL(5, -100)}, false}, // four faces
		closedChain(lattice.LL(-80, 20), 1e-6, 4),                                                            // a single index cell on face 5
	}
	b.cuBase, b.cuExt = c05hCellBlocks(lattice.GeoLeaf(ctr["corner"]).Parent(1))
	b.capPts = []s2.Point{ctr["antimer"], lattice.GeoCirclePoint(ctr["antimer"], 1e-7, 2), lattice.GeoCirclePoint(ctr["antimer"], 0.5, 5)}
	b.rectPts = []s2.LatLng{ll(80, 0), ll(89, 90), ll(90, -90)}
	b.rectLng = [][2]int{{0, 0}, {0, 1}, {2, 1}}
	out = append(out, b)

	if !c.Quick() {
		// thresholds: exactly 32 vertices, a loop larger than a hemisphere, 13 loops (> 12: cumulative edge table)
		t := &c05hWorld{name: "thresholds", fullDepth: 3}
		t.loopV, t.loopCtr = lattice.GeoRegular(ctr["antimer"], 2, 32, 0.1), ctr["antimer"]
		for k := 0; k < 13; k++ {
			p := lattice.GeoCirclePoint(ctr["face"], 0.3, float64(k)*2*math.Pi/13)
			t.polyLoops = append(t.polyLoops, lattice.GeoRegular(p, 0.05, 6, 0))
			t.polyCtrs = append(t.polyCtrs, p)
		}
		t.shapes = []c05hChain{
			closedChain(s2.PointFromCoords(-1, 0, 0), 0.2, 36), // face 3
			closedChain(s2.PointFromCoords(1, 0, 0), 0.05, 12), // face 0: BEFORE the cells of shape 0
			closedChain(s2.PointFromCoords(0, 0, -1), 0.01, 5), // face 5
		}
		t.cuBase, t.cuExt = c05hCellBlocks(lattice.GeoLeaf(ctr["edge"]).Parent(9))
		t.capPts = []s2.Point{ctr["pole"], lattice.GeoCirclePoint(ctr["pole"], math.Pi/2, 0), lattice.GeoCirclePoint(ctr["pole"], math.Pi-1e-3, 3)}
		t.rectPts = []s2.LatLng{ll(-5, -100), ll(5, 100), ll(0, 10)}
		t.rectLng = [][2]int{{0, 0}, {1, 0}, {2, 0}} // -100 -> 100 is shorter across the antimeridian ([100,-100]); 10 is nearer to 100 ([10,-100])
		out = append(out, t)
	}
	return out
}

// ---- alphabet -----------------------------------------------------------------------------------

const (
	c05hLoop = iota
	c05hPoly
	c05hIdxFresh
	c05hIdxKept
	c05hCU
	c05hCap
	c05hRect
	c05hNumSlots
)

var c05hSlotName = [c05hNumSlots]string{"Loop", "Polygon", "ShapeIndexRegion(created for the call)", "ShapeIndexRegion(kept)", "CellUnion", "Cap", "Rect"}
var c05hSlotKey = [c05hNumSlots]string{"loop", "polygon", "index", "index", "cellunion", "cap", "rect"}

const (
	c05hOpOpt = iota
	c05hOpMut
	c05hOpCover
)

const (
	c05hMutInvertLoop = iota
	c05hMutInvertPoly
	c05hMutIndexAdd
	c05hMutCUAppend
	c05hMutCUNormalize
	c05hMutCapAdd
	c05hMutRectAdd
)

type c05hOp struct {
	name  string
	kind  int
	field int // c05hOpOpt: 0 MinLevel, 1 MaxLevel, 2 LevelMod, 3 MaxCells
	val   int // c05hOpOpt: the value assigned
	mut   int // c05hOpMut
	slot  int // c05hOpMut / c05hOpCover
	mi    int // c05hOpCover: index into c05Methods
}

// c05hFieldNames / c05hFieldValues: the single-field assignments.  The first value of each field is
// the one NewRegionCoverer() starts with, so "set it back" is a letter too.
var c05hFieldNames = [4]string{"MinLevel", "MaxLevel", "LevelMod", "MaxCells"}
var c05hFieldValues = [4][]int{{0, 3}, {30, 7}, {1, 2, 3}, {8, 2, 40}}

func c05hSetField(cfg *c05Cfg, field, val int) {
	switch field {
	case 0:
		cfg.minL = val
	case 1:
		cfg.maxL = val
	case 2:
		cfg.mod = val
	default:
		cfg.maxCells = val
	}
}

func c05hAlphabet() []c05hOp {
	var ops []c05hOp
	for f, vals := range c05hFieldValues {
		for _, v := range vals {
			ops = append(ops, c05hOp{name: fmt.Sprintf("rc.%s=%d", c05hFieldNames[f], v), kind: c05hOpOpt, field: f, val: v})
		}
	}
	mut := func(name string, m, slot int) {
		ops = append(ops, c05hOp{name: name, kind: c05hOpMut, mut: m, slot: slot})
	}
	mut("loop.Invert()", c05hMutInvertLoop, c05hLoop)
	mut("polygon.Invert()", c05hMutInvertPoly, c05hPoly)
	mut("index.Add(next shape)", c05hMutIndexAdd, c05hIdxFresh)
	mut("cellunion=append(cellunion, next block...)", c05hMutCUAppend, c05hCU)
	mut("cellunion.Normalize()", c05hMutCUNormalize, c05hCU)
	mut("cap=cap.AddPoint(next)", c05hMutCapAdd, c05hCap)
	mut("rect=rect.AddPoint(next)", c05hMutRectAdd, c05hRect)
	for slot := 0; slot < c05hNumSlots; slot++ {
		for mi, m := range c05Methods {
			if (slot == c05hIdxFresh || slot == c05hIdxKept) && (mi == 2 || mi == 3) {
				continue // the adapter's ContainsCell is constantly false: interior coverings only subdivide
			}
			ops = append(ops, c05hOp{name: fmt.Sprintf("rc.%s(%s)", m, c05hSlotName[slot]), kind: c05hOpCover, slot: slot, mi: mi})
		}
	}
	return ops
}

// ---- model ---------------------------------------------------------------------------------------

type c05hModel struct {
	cfg              c05Cfg
	loopInv, polyInv bool
	nShapes          int
	cu               []s2.CellID
	nExt             int
	nCap, nRect      int
}

func c05hNewModel(w *c05hWorld) *c05hModel {
	return &c05hModel{cfg: c05Cfg{0, 30, 1, 8}, nShapes: 1, cu: append([]s2.CellID(nil), w.cuBase...)}
}

func (m *c05hModel) enabled(w *c05hWorld, op *c05hOp) bool {
	if op.kind != c05hOpMut {
		return true
	}
	switch op.mut {
	case c05hMutIndexAdd:
		return m.nShapes < len(w.shapes)
	case c05hMutCUAppend:
		return m.nExt < len(w.cuExt)
	case c05hMutCapAdd:
		return m.nCap < len(w.capPts)
	case c05hMutRectAdd:
		return m.nRect < len(w.rectPts)
	}
	return true
}

// c05hNormalize is the model's own normalization: sort, drop cells contained in others, replace
// four siblings by their parent until nothing changes.
func c05hNormalize(ids []s2.CellID) []s2.CellID {
	s := append([]s2.CellID(nil), ids...)
	sort.Slice(s, func(i, j int) bool { return s[i] < s[j] })
	var out []s2.CellID
	for _, id := range s {
		if n := len(out); n > 0 && out[n-1].Contains(id) {
			continue
		}
		for len(out) > 0 && id.Contains(out[len(out)-1]) {
			out = out[:len(out)-1]
		}
		out = append(out, id)
		for len(out) >= 4 {
			n := len(out)
			l := out[n-1].Level()
			if l == 0 || out[n-2].Level() != l || out[n-3].Level() != l || out[n-4].Level() != l {
				break
			}
			par := out[n-1].Parent(l - 1)
			if out[n-2].Parent(l-1) != par || out[n-3].Parent(l-1) != par || out[n-4].Parent(l-1) != par {
				break
			}
			out = append(out[:n-4], par)
		}
	}
	return out
}

func (m *c05hModel) apply(w *c05hWorld, op *c05hOp) {
	switch op.kind {
	case c05hOpOpt:
		c05hSetField(&m.cfg, op.field, op.val)
	case c05hOpMut:
		switch op.mut {
		case c05hMutInvertLoop:
			m.loopInv = !m.loopInv
		case c05hMutInvertPoly:
			m.polyInv = !m.polyInv
		case c05hMutIndexAdd:
			m.nShapes++
		case c05hMutCUAppend:
			m.cu = append(append([]s2.CellID(nil), m.cu...), w.cuExt[m.nExt]...)
			m.nExt++
		case c05hMutCUNormalize:
			m.cu = c05hNormalize(m.cu)
		case c05hMutCapAdd:
			m.nCap++
		case c05hMutRectAdd:
			m.nRect++
		}
	}
}

func (m *c05hModel) stateKey(slot int) string {
	switch slot {
	case c05hLoop:
		return fmt.Sprintf("inverted=%v", m.loopInv)
	case c05hPoly:
		return fmt.Sprintf("inverted=%v", m.polyInv)
	case c05hIdxFresh, c05hIdxKept:
		return fmt.Sprintf("shapes=%d", m.nShapes)
	case c05hCU:
		return strings.Join(c05Tokens(m.cu), ",")
	case c05hCap:
		return fmt.Sprintf("points=%d", m.nCap)
	}
	return fmt.Sprintf("points=%d", m.nRect)
}

func (m *c05hModel) loopVertices(w *c05hWorld) []s2.Point {
	if m.loopInv {
		return lattice.GeoReverse(w.loopV)
	}
	return append([]s2.Point(nil), w.loopV...)
}

// polyLoopVertices: the complement of a polygon given by "inside an odd number of loops" is the same
// loops with any one of them reversed; the model always reverses loop 0 (the library chooses its own).
func (m *c05hModel) polyLoopVertices(w *c05hWorld) [][]s2.Point {
	var out [][]s2.Point
	for i, v := range w.polyLoops {
		if i == 0 && m.polyInv {
			out = append(out, lattice.GeoReverse(v))
		} else {
			out = append(out, append([]s2.Point(nil), v...))
		}
	}
	return out
}

func (m *c05hModel) capValue(w *c05hWorld) s2.Cap {
	if m.nCap == 0 {
		return s2.EmptyCap()
	}
	var rad s1.ChordAngle
	for _, p := range w.capPts[1:m.nCap] {
		if d := s2.ChordAngleBetweenPoints(w.capPts[0], p); d > rad {
			rad = d
		}
	}
	return s2.CapFromCenterChordAngle(w.capPts[0], rad)
}

func (m *c05hModel) rectValue(w *c05hWorld) s2.Rect {
	if m.nRect == 0 {
		return s2.EmptyRect()
	}
	lo, hi := math.Inf(1), math.Inf(-1)
	for _, p := range w.rectPts[:m.nRect] {
		lo, hi = math.Min(lo, p.Lat.Radians()), math.Max(hi, p.Lat.Radians())
	}
	e := w.rectLng[m.nRect-1]
	return s2.Rect{Lat: r1.Interval{Lo: lo, Hi: hi}, Lng: s1.Interval{Lo: w.rectPts[e[0]].Lng.Radians(), Hi: w.rectPts[e[1]].Lng.Radians()}}
}

// ---- the index adapter -----------------------------------------------------------------------------

type c05hIndexRegion struct {
	*s2.ShapeIndexRegion // CapBound, RectBound, CellUnionBound: the library's
	idx                  *s2.ShapeIndex
}

func (r c05hIndexRegion) ContainsCell(s2.Cell) bool   { return false }
func (r c05hIndexRegion) ContainsPoint(s2.Point) bool { return false }
func (r c05hIndexRegion) IntersectsCell(c s2.Cell) bool {
	return r.idx.Iterator().LocateCellID(c.ID()) != s2.Disjoint
}

func c05hShape(ch c05hChain) s2.Shape {
	v := append([]s2.Point(nil), ch.v...)
	if ch.closed {
		return s2.LaxLoopFromPoints(v)
	}
	pl := s2.Polyline(v)
	return &pl
}

// freshRegion constructs the region directly in the model's state.
func (m *c05hModel) freshRegion(w *c05hWorld, slot int) s2.Region {
	switch slot {
	case c05hLoop:
		return s2.LoopFromPoints(m.loopVertices(w))
	case c05hPoly:
		var ls []*s2.Loop
		for _, v := range m.polyLoopVertices(w) {
			ls = append(ls, s2.LoopFromPoints(v))
		}
		return s2.PolygonFromLoops(ls)
	case c05hIdxFresh, c05hIdxKept:
		idx := s2.NewShapeIndex()
		for _, ch := range w.shapes[:m.nShapes] {
			idx.Add(c05hShape(ch))
		}
		return c05hIndexRegion{idx.Region(), idx}
	case c05hCU:
		cu := s2.CellUnion(append([]s2.CellID(nil), m.cu...))
		return &cu
	case c05hCap:
		return m.capValue(w)
	}
	return m.rectValue(w)
}

// ---- the objects of one history ---------------------------------------------------------------------

type c05hObjs struct {
	w       *c05hWorld
	rc      *s2.RegionCoverer
	loop    *s2.Loop
	poly    *s2.Polygon
	idx     *s2.ShapeIndex
	kept    *s2.ShapeIndexRegion
	nShapes int
	cu      *s2.CellUnion
	nExt    int
	cp      s2.Cap
	nCap    int
	rect    s2.Rect
	nRect   int
}

func c05hNewObjs(w *c05hWorld) *c05hObjs {
	return &c05hObjs{w: w, rc: s2.NewRegionCoverer(), cp: s2.EmptyCap(), rect: s2.EmptyRect()}
}

// touch creates the object of a slot the first time the history mentions it.
func (o *c05hObjs) touch(slot int) {
	w := o.w
	switch slot {
	case c05hLoop:
		if o.loop == nil {
			o.loop = s2.LoopFromPoints(append([]s2.Point(nil), w.loopV...))
		}
	case c05hPoly:
		if o.poly == nil {
			var ls []*s2.Loop
			for _, v := range w.polyLoops {
				ls = append(ls, s2.LoopFromPoints(append([]s2.Point(nil), v...)))
			}
			o.poly = s2.PolygonFromLoops(ls)
		}
	case c05hIdxFresh, c05hIdxKept:
		if o.idx == nil {
			o.idx = s2.NewShapeIndex()
			o.idx.Add(c05hShape(w.shapes[0]))
			o.nShapes = 1
			o.kept = o.idx.Region()
		}
	case c05hCU:
		if o.cu == nil {
			cu := s2.CellUnion(append([]s2.CellID(nil), w.cuBase...))
			o.cu = &cu
		}
	}
}

func (o *c05hObjs) mutate(op *c05hOp) {
	o.touch(op.slot)
	switch op.mut {
	case c05hMutInvertLoop:
		o.loop.Invert()
	case c05hMutInvertPoly:
		o.poly.Invert()
	case c05hMutIndexAdd:
		o.idx.Add(c05hShape(o.w.shapes[o.nShapes]))
		o.nShapes++
	case c05hMutCUAppend:
		*o.cu = append(*o.cu, o.w.cuExt[o.nExt]...)
		o.nExt++
	case c05hMutCUNormalize:
		o.cu.Normalize()
	case c05hMutCapAdd:
		o.cp = o.cp.AddPoint(o.w.capPts[o.nCap])
		o.nCap++
	case c05hMutRectAdd:
		o.rect = o.rect.AddPoint(o.w.rectPts[o.nRect])
		o.nRect++
	}
}

func (o *c05hObjs) region(slot int) s2.Region {
	o.touch(slot)
	switch slot {
	case c05hLoop:
		return o.loop
	case c05hPoly:
		return o.poly
	case c05hIdxFresh:
		return c05hIndexRegion{o.idx.Region(), o.idx}
	case c05hIdxKept:
		return c05hIndexRegion{o.kept, o.idx}
	case c05hCU:
		return o.cu
	case c05hCap:
		return o.cp
	}
	return o.rect
}

func c05hCall(rc *s2.RegionCoverer, mi int, reg s2.Region) s2.CellUnion {
	switch mi {
	case 0:
		return rc.Covering(reg)
	case 1:
		return rc.CellUnion(reg)
	case 2:
		return rc.InteriorCovering(reg)
	case 3:
		return rc.InteriorCellUnion(reg)
	}
	return rc.FastCovering(reg)
}

// ---- references of the final states ------------------------------------------------------------------

// c05hCapOracle is c05CapRegion for a cap given as a value (the radius of an AddPoint result is a
// chord angle that no (centre, angle) pair reproduces exactly).
func c05hCapOracle(name string, cp s2.Cap) *c05Region {
	r := &c05Region{name: name, kind: "cap", reg: cp, desc: map[string]any{"center": lattice.GeoPt(cp.Center()), "height": cp.Height()}}
	r.in = cp.ContainsPoint
	if cp.IsEmpty() || cp.IsFull() {
		r.bdist = func(s2.Point) float64 { return math.Inf(1) }
		return r
	}
	ctr := cp.Center()
	r2 := 2 * cp.Height()
	theta := 2 * math.Atan2(math.Sqrt(r2), math.Sqrt(4-r2))
	r.bdist = func(p s2.Point) float64 { return math.Abs(lattice.GeoAngle(ctr, p) - theta) }
	r.probes = append(r.probes, ctr, s2.Point{Vector: ctr.Mul(-1)})
	const dirs = 32
	for k := 0; k < dirs; k++ {
		phi := 2 * math.Pi * (float64(k) + 0.25) / dirs
		if theta > 0 {
			b := lattice.GeoCirclePoint(ctr, theta, phi)
			r.addBoundary(b)
			if k%2 == 0 {
				r.bpts = append(r.bpts, b)
			}
		}
		for _, d := range []float64{theta * (1 - 1.0/(1<<20)), theta * (1 + 1.0/(1<<20)), theta / 2, theta - 3e-12, theta + 3e-12, theta + 1e-9, 2 * theta} {
			if d > 0 && d < math.Pi {
				r.probes = append(r.probes, lattice.GeoCirclePoint(ctr, d, phi))
			}
		}
	}
	if theta == 0 {
		r.bprobes = append(r.bprobes, ctr)
		r.bpts = append(r.bpts, ctr)
	}
	return r
}

// c05hChainsOracle: the point set of an index region that this check relies on is the union of
// the indexed edges (the interiors of closed chains are not claimed).
func c05hChainsOracle(name string, chains []c05hChain, perEdge int) *c05Region {
	var open [][]s2.Point
	var d [][][3]float64
	for _, ch := range chains {
		v := append([]s2.Point(nil), ch.v...)
		if ch.closed {
			v = append(v, ch.v[0])
		}
		open = append(open, v)
		d = append(d, lattice.GeoPts(ch.v))
	}
	dist := func(p s2.Point) float64 {
		x := math.Inf(1)
		for _, v := range open {
			x = math.Min(x, lattice.GeoChainDist(p, v, false))
		}
		return x
	}
	r := &c05Region{name: name, kind: "shape-index region", desc: map[string]any{"chains": d}}
	r.in = func(p s2.Point) bool { return dist(p) <= 1e-15 }
	r.bdist = dist
	for _, v := range open {
		r.addChainProbes(v, false, perEdge, s2.Point{})
	}
	return r
}

func (m *c05hModel) oracle(w *c05hWorld, slot, perEdge int) *c05Region {
	name := fmt.Sprintf("%s/%s[%s]", w.name, c05hSlotKey[slot], trunc(m.stateKey(slot), 80))
	switch slot {
	case c05hLoop:
		return c05LoopRegion(name, m.loopVertices(w), w.loopCtr, perEdge)
	case c05hPoly:
		return c05PolygonRegion(name, m.polyLoopVertices(w), w.polyCtrs, perEdge)
	case c05hIdxFresh, c05hIdxKept:
		return c05hChainsOracle(name, w.shapes[:m.nShapes], perEdge)
	case c05hCU:
		return c05CellUnionRegion(name, m.cu)
	case c05hCap:
		return c05hCapOracle(name, m.capValue(w))
	}
	return c05RectRegion(name, m.rectValue(w))
}

// c05hJudge applies the C05 claims to one answer (the judging half of c05CheckCovering).
func c05hJudge(r *c05Region, cfg c05Cfg, mi int, cu s2.CellUnion, depth int) (string, map[string]any) {
	method := c05Methods[mi]
	interior := mi == 2 || mi == 3
	st := &c05Stats{}
	for i, id := range cu {
		if !id.IsValid() {
			return method + " returns an invalid cell id", map[string]any{"index": i}
		}
		if i > 0 && cu[i-1].RangeMax() >= id.RangeMin() {
			return method + " result is not sorted / not disjoint", map[string]any{"index": i}
		}
		l := id.Level()
		if l > cfg.maxL {
			return method + " returns a cell above MaxLevel", map[string]any{"cell": id.ToToken(), "level": l}
		}
		if mi == 0 || mi == 2 || mi == 4 {
			if l < cfg.minL {
				return method + " returns a cell below MinLevel", map[string]any{"cell": id.ToToken(), "level": l}
			} else if (l-cfg.minL)%cfg.mod != 0 {
				return method + " returns a cell whose level violates LevelMod", map[string]any{"cell": id.ToToken(), "level": l}
			}
		}
	}
	if mi == 1 || mi == 3 {
		for i := 3; i < len(cu); i++ {
			a := cu[i-3]
			if a.Level() > 0 && cu[i].Level() == a.Level() && cu[i-1].Level() == a.Level() && cu[i-2].Level() == a.Level() {
				par := a.Parent(a.Level() - 1)
				if cu[i].Parent(a.Level()-1) == par && cu[i-1].Parent(a.Level()-1) == par && cu[i-2].Parent(a.Level()-1) == par {
					return method + " result is not normalized (four siblings)", map[string]any{"index": i}
				}
			}
		}
	}
	if !interior {
		for k, p := range r.inPts {
			if !c05Covered(cu, p, r.inLeaf[k], st) {
				return fmt.Sprintf("%s of a %s misses a point the region contains (farther than 1e-12 from every returned cell)", method, r.kind),
					map[string]any{"point": lattice.GeoPt(p), "distance_to_region_boundary": r.bdist(p)}
			}
		}
		stride := 1 + len(cu)/300
		for i := 0; i < len(cu); i += stride {
			for _, q := range cu[i].EdgeNeighbors() {
				p := q.Point()
				leaf := lattice.GeoLeaf(p)
				j := sort.Search(len(cu), func(k int) bool { return cu[k].RangeMax() >= leaf })
				if j < len(cu) && cu[j].RangeMin() <= leaf {
					continue
				}
				if r.in(p) && !c05Covered(cu, p, leaf, st) {
					return fmt.Sprintf("%s of a %s misses the centre of a neighbouring cell that the region contains", method, r.kind),
						map[string]any{"point": lattice.GeoPt(p), "neighbour": q.ToToken(), "distance_to_region_boundary": r.bdist(p)}
				}
			}
		}
		return "", nil
	}
	stride := 1 + len(cu)/200
	for i := 0; i < len(cu); i += stride {
		cell := s2.CellFromCellID(cu[i])
		if p, found := c05WitnessOutside(r, cell, lattice.GeoCellProbes(cu[i], depth)); found {
			return fmt.Sprintf("%s of a %s returns a cell with a point outside the region", method, r.kind),
				map[string]any{"cell": cu[i].ToToken(), "point": lattice.GeoPt(p), "distance_to_region_boundary": r.bdist(p), "distance_to_cell_boundary": lattice.GeoCellBoundaryDist(p, cell)}
		}
	}
	return "", nil
}

// ---- memo of the fresh answers -----------------------------------------------------------------------

type c05hOracleEntry struct {
	once sync.Once
	r    *c05Region
}

type c05hExpEntry struct {
	once sync.Once
	cu   s2.CellUnion
	ok   bool // computed without a panic
}

type c05hRun struct {
	c          *core.Ctx
	worlds     []*c05hWorld
	ops        []c05hOp
	structural []s2.Point
	perEdge    int
	depth      int
	oracles    sync.Map // world/slotkey/state -> *c05hOracleEntry
	expected   sync.Map // world/slotkey/state/opt/method -> *c05hExpEntry

	histories, nontrivial, coverCalls, mismatches, emptyFinal atomic.Int64
	expComputed, expNonEmpty, oracleCount                     atomic.Int64
	perSlot                                                   [c05hNumSlots]atomic.Int64
	byLen                                                     [8]atomic.Int64
	answersMu                                                 sync.Mutex
	answers                                                   map[string]map[string]bool // slotkey/opt/method -> distinct fresh answers over the states
}

func (h *c05hRun) oracleFor(wi int, m *c05hModel, slot int) *c05Region {
	key := fmt.Sprintf("%d/%s/%s", wi, c05hSlotKey[slot], m.stateKey(slot))
	e, _ := h.oracles.LoadOrStore(key, &c05hOracleEntry{})
	ent := e.(*c05hOracleEntry)
	ent.once.Do(func() {
		r := m.oracle(h.worlds[wi], slot, h.perEdge)
		r.prepare(h.structural)
		ent.r = r
		h.oracleCount.Add(1)
	})
	return ent.r
}

func (h *c05hRun) detail(wi int, hist []int, m *c05hModel, slot, mi int) map[string]any {
	var names []string
	for _, oi := range hist {
		names = append(names, h.ops[oi].name)
	}
	cfg := m.cfg
	return map[string]any{"world": h.worlds[wi].name, "history": names, "ops": hist, "final_region": c05hSlotName[slot], "final_region_state": trunc(m.stateKey(slot), 400),
		"MinLevel": cfg.minL, "MaxLevel": cfg.maxL, "LevelMod": cfg.mod, "MaxCells": cfg.maxCells, "method": c05Methods[mi]}
}

// expectedFor returns the answer of a fresh coverer on a fresh region in the model's state, judged
// once against the reference of that state.
func (h *c05hRun) expectedFor(wi int, m *c05hModel, slot, mi int, hist []int) (s2.CellUnion, bool) {
	key := fmt.Sprintf("%d/%s/%s/%v/%d", wi, c05hSlotKey[slot], m.stateKey(slot), m.cfg, mi)
	e, _ := h.expected.LoadOrStore(key, &c05hExpEntry{})
	ent := e.(*c05hExpEntry)
	ent.once.Do(func() {
		c := h.c
		cfg := m.cfg
		cas := append([]int{wi}, hist...)
		c.Guard(c05hSub, cas, func() any { return h.detail(wi, hist, m, slot, mi) }, func() {
			reg := m.freshRegion(h.worlds[wi], slot)
			rc := &s2.RegionCoverer{MinLevel: cfg.minL, MaxLevel: cfg.maxL, LevelMod: cfg.mod, MaxCells: cfg.maxCells}
			ent.cu = c05hCall(rc, mi, reg)
			ent.ok = true
		})
		if !ent.ok {
			return
		}
		h.expComputed.Add(1)
		if len(ent.cu) > 0 {
			h.expNonEmpty.Add(1)
		}
		h.answersMu.Lock()
		k2 := fmt.Sprintf("%d/%s/%v/%d", wi, c05hSlotKey[slot], m.cfg, mi)
		if h.answers[k2] == nil {
			h.answers[k2] = map[string]bool{}
		}
		h.answers[k2][strings.Join(c05Tokens(ent.cu), ",")] = true
		h.answersMu.Unlock()
		if desc, extra := c05hJudge(h.oracleFor(wi, m, slot), cfg, mi, ent.cu, h.depth); desc != "" {
			d := h.detail(wi, hist, m, slot, mi)
			d["covering"] = c05Tokens(ent.cu)
			for k, v := range extra {
				d[k] = v
			}
			c.Violate(c05hSub, "wrong-answer", "fresh coverer, fresh region in the final state of a history: "+desc, cas, d)
		}
	})
	return ent.cu, ent.ok
}

func c05hEqual(a, b s2.CellUnion) bool {
	if len(a) != len(b) {
		return false
	}
	for i := range a {
		if a[i] != b[i] {
			return false
		}
	}
	return true
}

// runHistory executes one history on fresh objects and judges its last answer.
func (h *c05hRun) runHistory(wi int, hist []int) {
	c := h.c
	w := h.worlds[wi]
	cas := append([]int{wi}, hist...)
	m := c05hNewModel(w)
	type rec struct {
		step     int
		cu, snap s2.CellUnion
	}
	var recs []rec
	var objs *c05hObjs
	done := false
	last := &h.ops[hist[len(hist)-1]]
	c.Guard(c05hSub, cas, func() any { return h.detail(wi, hist, m, last.slot, last.mi) }, func() {
		objs = c05hNewObjs(w)
		for k, oi := range hist {
			op := &h.ops[oi]
			switch op.kind {
			case c05hOpOpt:
				switch op.field {
				case 0:
					objs.rc.MinLevel = op.val
				case 1:
					objs.rc.MaxLevel = op.val
				case 2:
					objs.rc.LevelMod = op.val
				default:
					objs.rc.MaxCells = op.val
				}
			case c05hOpMut:
				objs.mutate(op)
			case c05hOpCover:
				cu := c05hCall(objs.rc, op.mi, objs.region(op.slot))
				recs = append(recs, rec{k, cu, append(s2.CellUnion(nil), cu...)})
			}
			m.apply(w, op)
		}
		done = true
	})
	h.histories.Add(1)
	h.byLen[len(hist)].Add(1)
	h.coverCalls.Add(int64(len(recs)))
	if !done {
		return
	}
	cfg := m.cfg
	got := recs[len(recs)-1].cu
	exp, ok := h.expectedFor(wi, m, last.slot, last.mi, hist)
	if !ok {
		return
	}
	h.perSlot[last.slot].Add(1)
	if len(got) == 0 {
		h.emptyFinal.Add(1)
	} else if len(recs) > 1 {
		h.nontrivial.Add(1)
	}
	if !c05hEqual(got, exp) {
		h.mismatches.Add(1)
		d := h.detail(wi, hist, m, last.slot, last.mi)
		d["covering"] = c05Tokens(got)
		d["fresh_covering"] = c05Tokens(exp)
		claim, extra := c05hJudge(h.oracleFor(wi, m, last.slot), cfg, last.mi, got, h.depth)
		for k, v := range extra {
			d[k] = v
		}
		desc := fmt.Sprintf("%s of a %s after a history on a re-used coverer differs from the answer of a fresh coverer on a fresh region in the same state", c05Methods[last.mi], c05hSlotName[last.slot])
		if claim != "" {
			desc += "; and it violates C05: " + claim
		}
		c.Violate(c05hSub, "wrong-answer", desc, cas, d)
	}
	// (c) earlier answers are still what they were; the options are what the history wrote
	for _, r := range recs {
		if !c05hEqual(r.cu, r.snap) {
			d := h.detail(wi, hist, m, last.slot, last.mi)
			d["step_of_the_modified_answer"] = r.step
			d["answer_when_returned"] = c05Tokens(r.snap)
			d["answer_now"] = c05Tokens(r.cu)
			c.Violate(c05hSub, "wrong-answer", "a covering returned earlier by the same coverer was modified by a later call (the returned CellUnion shares memory with the coverer)", cas, d)
			break
		}
	}
	if rc := objs.rc; rc.MinLevel != cfg.minL || rc.MaxLevel != cfg.maxL || rc.LevelMod != cfg.mod || rc.MaxCells != cfg.maxCells {
		d := h.detail(wi, hist, m, last.slot, last.mi)
		d["coverer_fields_now"] = []int{rc.MinLevel, rc.MaxLevel, rc.LevelMod, rc.MaxCells}
		c.Violate(c05hSub, "wrong-answer", "a covering call changed the exported option fields of the coverer", cas, d)
	}
}

// A history is packed into 6 bits per operation (op index + 1, first operation in the low bits).
func c05hPack(hist []int) uint32 {
	var code uint32
	for k, oi := range hist {
		code |= uint32(oi+1) << (6 * uint(k))
	}
	return code
}

func c05hUnpack(code uint32) []int {
	var hist []int
	for ; code != 0; code >>= 6 {
		hist = append(hist, int(code&63)-1)
	}
	return hist
}

// enumerate lists every history of length <= depth over the alphabet subset that ends in a covering
// call and is longer than minLen.
func (h *c05hRun) enumerate(wi int, subset []int, depth, minLen int, out []uint32) []uint32 {
	w := h.worlds[wi]
	hist := make([]int, 0, depth)
	var rec func(m *c05hModel)
	rec = func(m *c05hModel) {
		for _, oi := range subset {
			op := &h.ops[oi]
			if !m.enabled(w, op) {
				continue
			}
			hist = append(hist, oi)
			if op.kind == c05hOpCover && len(hist) > minLen {
				out = append(out, c05hPack(hist))
			}
			if len(hist) < depth {
				m2 := *m
				m2.apply(w, op)
				rec(&m2)
			}
			hist = hist[:len(hist)-1]
		}
	}
	rec(c05hNewModel(w))
	return out
}

func c05History(c *core.Ctx) {
	if !(c.OnlySub == "" || c.OnlySub == c05hSub) {
		return
	}
	t0 := time.Now()
	focusDepth := core.Pick(c, 4, 5)
	h := &c05hRun{c: c, worlds: c05hWorlds(c), structural: lattice.PStruct(2), perEdge: core.Pick(c, 8, 16), depth: 2, answers: map[string]map[string]bool{}}
	h.ops = c05hAlphabet()
	if len(h.ops) > 62 || focusDepth > 5 {
		panic(core.HarnessError("C05 covering-histories: a history no longer fits the 5 x 6 bit code"))
	}
	nOpt := 0
	for _, op := range h.ops {
		if op.kind == c05hOpOpt {
			nOpt++
		}
	}
	var depths []string
	for _, w := range h.worlds {
		depths = append(depths, fmt.Sprintf("%s: %d", w.name, w.fullDepth))
	}
	c.Rule += fmt.Sprintf("  covering-histories: for each of %d worlds (objects below / above / at the 32-vertex, 10-edges-per-cell and 12-loop thresholds) every sequence of at most d operations (d by world - %s) over the full alphabet of %d letters (%d single-field assignments to ONE shared coverer - MinLevel 0|3, MaxLevel 30|7, LevelMod 1|2|3, MaxCells 8|2|40; Loop.Invert, Polygon.Invert, ShapeIndex.Add, CellUnion append / Normalize, Cap.AddPoint, Rect.AddPoint; every covering method on every region, the index through a ShapeIndexRegion made for the call and through one kept from before the index grew) that ends in a covering call and respects the preconditions (nothing to add once the world's shapes / blocks / points are used up), plus every such sequence of d+1..%d operations over each single region's letters (MinLevel=3, LevelMod=2, MaxCells=40 + its mutations + its covering calls); the last answer is compared with a fresh coverer on a fresh region built directly in the model's final state and with the reference of that state; non-trivial = the last answer is non-empty and the same coverer has answered at least once before in the history.", len(h.worlds), strings.Join(depths, ", "), len(h.ops), nOpt, focusDepth)
	c.Assume = append(c.Assume, "covering-histories: a coverer is a pure function of its four exported fields and of the region's current point set (documented as a plain options struct; the result is stable within one build of the library)",
		"covering-histories: an index region is judged on the indexed edges only; its cell predicates are the adapter's (not disjoint from the index cells), its bounds the library's")

	// alphabet subsets: the full alphabet, then one per region with three assignments
	type pass struct {
		name   string
		subset []int
	}
	var all []int
	for i := range h.ops {
		all = append(all, i)
	}
	passes := []pass{{"full", all}}
	groups := [][]int{{c05hLoop}, {c05hPoly}, {c05hIdxFresh, c05hIdxKept}, {c05hCU}, {c05hCap}, {c05hRect}}
	for _, g := range groups {
		var sub []int
		for i, op := range h.ops {
			in := false
			for _, s := range g {
				in = in || op.slot == s
			}
			focusOpt := op.field == 0 && op.val == 3 || op.field == 2 && op.val == 2 || op.field == 3 && op.val == 40
			if op.kind == c05hOpOpt && focusOpt || op.kind != c05hOpOpt && in {
				sub = append(sub, i)
			}
		}
		passes = append(passes, pass{"focus:" + c05hSlotKey[g[0]], sub})
	}

	type job struct {
		code uint32
		wi   uint8
	}
	var jobs []job
	var codes []uint32
	enum := func(wi int, p pass, depth, minLen int, label string) {
		codes = h.enumerate(wi, p.subset, depth, minLen, codes[:0])
		c.Count(fmt.Sprintf("%s/enumerated/%s/%s%s", c05hSub, h.worlds[wi].name, p.name, label), int64(len(codes)))
		for _, x := range codes {
			jobs = append(jobs, job{x, uint8(wi)})
		}
	}
	// order: what a cut by the wall budget would lose last comes first
	for wi := range h.worlds {
		enum(wi, passes[0], 3, 0, "/length<=3")
	}
	for wi, w := range h.worlds {
		for _, p := range passes[1:] {
			enum(wi, p, focusDepth, w.fullDepth, fmt.Sprintf("/length%d..%d", w.fullDepth+1, focusDepth))
		}
	}
	for wi, w := range h.worlds {
		if w.fullDepth > 3 {
			enum(wi, passes[0], w.fullDepth, 3, fmt.Sprintf("/length4..%d", w.fullDepth))
		}
	}
	c.Count(c05hSub+"/alphabet_size", int64(len(h.ops)))
	c.Count(c05hSub+"/histories_enumerated", int64(len(jobs)))
	if len(jobs) == 0 {
		panic(core.HarnessError("C05 covering-histories: nothing enumerated"))
	}
	var cut atomic.Bool
	c.ParallelFor(len(jobs), func(j int) {
		wi, hist := int(jobs[j].wi), c05hUnpack(jobs[j].code)
		if c.OnlySub != "" && c.Skip(c05hSub, append([]int{wi}, hist...)...) {
			return
		}
		if c.Expired() {
			cut.Store(true)
			return
		}
		h.runHistory(wi, hist)
	})
	if cut.Load() {
		c.CapHit(fmt.Sprintf("covering-histories: wall budget reached after %d of %d histories", h.histories.Load(), len(jobs)))
	}

	c.Eval(int(h.histories.Load()))
	c.Nontrivial(int(h.nontrivial.Load()))
	if os.Getenv("VERIF_C05H_SUMMARY") != "" { // replays write no evidence: one summary line on request
		fmt.Printf("covering-histories: alphabet=%d enumerated=%d run=%d nontrivial=%d cover_calls=%d fresh_answers=%d (non-empty %d) references=%d differing=%d wall=%.1fs\n", len(h.ops), len(jobs), h.histories.Load(), h.nontrivial.Load(),
			h.coverCalls.Load(), h.expComputed.Load(), h.expNonEmpty.Load(), h.oracleCount.Load(), h.mismatches.Load(), time.Since(t0).Seconds())
	}
	c.Count(c05hSub+"/histories_run", h.histories.Load())
	for l := 1; l < len(h.byLen); l++ {
		if n := h.byLen[l].Load(); n > 0 {
			c.Count(fmt.Sprintf("%s/histories_of_length_%d", c05hSub, l), n)
		}
	}
	c.Count(c05hSub+"/covering_calls_on_reused_coverers", h.coverCalls.Load())
	c.Count(c05hSub+"/nontrivial", h.nontrivial.Load())
	c.Count(c05hSub+"/final_answer_empty", h.emptyFinal.Load())
	c.Count(c05hSub+"/distinct_final_(state,options,method)_judged_against_the_reference", h.expComputed.Load())
	c.Count(c05hSub+"/of_which_non_empty", h.expNonEmpty.Load())
	c.Count(c05hSub+"/reference_regions_of_final_states", h.oracleCount.Load())
	c.Count(c05hSub+"/answers_differing_from_fresh", h.mismatches.Load())
	for s := 0; s < c05hNumSlots; s++ {
		c.Count(fmt.Sprintf("%s/final_call_on/%s", c05hSub, c05hSlotName[s]), h.perSlot[s].Load())
	}
	for k := 0; k < 3 && k < len(jobs); k++ {
		jb := jobs[(k*7919+len(jobs)/2)%len(jobs)]
		var names []string
		for _, oi := range c05hUnpack(jb.code) {
			names = append(names, h.ops[oi].name)
		}
		c.Sample(map[string]any{"sub": c05hSub, "world": h.worlds[jb.wi].name, "history": names})
	}
	if c.OnlySub == "" && !cut.Load() {
		// vacuity: every region must have been seen in states whose fresh answers differ
		if h.nontrivial.Load() == 0 {
			panic(core.HarnessError("C05 covering-histories: no non-trivial history"))
		}
		changed := map[string]bool{}
		for k, v := range h.answers {
			if len(v) >= 2 {
				p := strings.Split(k, "/")
				changed[p[0]+"/"+p[1]] = true
			}
		}
		for wi := range h.worlds {
			for _, sk := range []string{"loop", "polygon", "index", "cellunion", "cap", "rect"} {
				if !changed[fmt.Sprintf("%d/%s", wi, sk)] {
					panic(core.HarnessError(fmt.Sprintf("C05 covering-histories: the mutations of the %s of world %s never change a fresh answer (vacuous)", sk, h.worlds[wi].name)))
				}
			}
		}
	}
}
