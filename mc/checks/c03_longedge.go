package checks

import (
	"fmt"
	"math"

	"github.com/golang/geo/r3"
	"github.com/golang/geo/s2"

	"verif/mc/core"
	"verif/mc/lattice"
	"verif/mc/refmodel"
)

// Sub-check "near-antipodal-edges": the fixed edge AB is 180 degrees minus 2e-8 .. 1e-12 long, so
// that a+b, a x b and every "which hemisphere" quantity derived from them is dominated by the
// rounding of the endpoints; CD is a short edge next to one of AB's endpoints, straddling AB,
// missing it, or sharing that endpoint.  Oracle: the exact four-orientation criterion on the actual
// float points; all argument orders, the stateless test and the crossers.
func init() {
	ck := Registry["C03"]
	run := ck.Run
	ck.Run = func(c *core.Ctx) {
		run(c)
		c03NearAntipodal(c)
	}
}

func c03NearAntipodal(c *core.Ctx) {
	sub := "near-antipodal-edges"
	all := lattice.PGeneric(false)
	bases := []s2.Point{{Vector: r3.Vector{X: 0, Y: 0, Z: 1}}, {Vector: r3.Vector{X: -3e-10, Y: 0, Z: 1}}, {Vector: r3.Vector{X: 1, Y: 1e-9, Z: 0}.Normalize()}}
	for i := 0; i < len(all); i += core.Pick(c, 12, 5) {
		bases = append(bases, all[i])
	}
	deltas := core.Pick(c, []float64{2e-8, 1e-9, 1e-12}, []float64{2e-8, 5e-9, 1e-9, 1e-10, 1e-12, 1e-15})
	ss := core.Pick(c, []float64{1e-9, 1e-6, 1e-3}, []float64{1e-9, 1e-7, 1e-6, 1e-4, 1e-3, 0.1})
	epss := core.Pick(c, []float64{1e-7, 1e-4}, []float64{1e-8, 1e-7, 1e-5, 1e-4, 1e-2})
	crossName := map[int]string{-1: "DoNotCross", 0: "MaybeCross", 1: "Cross"}
	var evals, cross, maybe int64
	for bi, a := range bases {
		// three tangent directions at a
		ref := r3.Vector{X: 1}
		if math.Abs(a.X) > 0.7 {
			ref = r3.Vector{Y: 1}
		}
		t0 := a.Cross(ref).Normalize()
		t1 := a.Cross(t0).Normalize()
		for ti, t := range []r3.Vector{t0, t1, t0.Add(t1).Normalize()} {
			n := a.Cross(t).Normalize()
			for di, dl := range deltas {
				ang := math.Pi - dl
				b := s2.Point{Vector: a.Mul(math.Cos(ang)).Add(t.Mul(math.Sin(ang))).Normalize()}
				if a.Vector == b.Mul(-1) {
					continue // exactly antipodal: outside the domain of the crossing tests
				}
				for end := 0; end < 2; end++ {
					for si, s := range ss {
						at := s
						if end == 1 {
							at = ang - s
						}
						p := a.Mul(math.Cos(at)).Add(t.Mul(math.Sin(at)))
						for ei, eps := range epss {
							pairs := [][2]s2.Point{
								{{Vector: p.Add(n.Mul(eps)).Normalize()}, {Vector: p.Sub(n.Mul(eps)).Normalize()}},                  // straddles AB
								{{Vector: p.Add(n.Mul(eps)).Normalize()}, {Vector: p.Add(n.Mul(2 * eps)).Add(t.Mul(eps)).Normalize()}}, // beside AB
							}
							endpt := a
							if end == 1 {
								endpt = b
							}
							pairs = append(pairs, [2]s2.Point{endpt, {Vector: p.Add(n.Mul(eps)).Normalize()}}, [2]s2.Point{endpt, {Vector: p.Sub(n.Mul(eps)).Normalize()}})
							for pi, cd := range pairs {
								cas := []int{bi, ti, di, end, si, ei, pi}
								if c.Skip(sub, cas...) {
									continue
								}
								cc, d := cd[0], cd[1]
								if cc == d {
									continue
								}
								detail := func() any {
									return map[string]any{"a": ptStr(a), "b": ptStr(b), "c": ptStr(cc), "d": ptStr(d)}
								}
								c.Guard(sub, cas, detail, func() {
									evals++
									want := refmodel.CrossingSign(a, b, cc, d)
									switch want {
									case refmodel.Cross:
										cross++
									case 0:
										maybe++
									}
									check := func(name string, got int, w int) bool {
										if got != w {
											c.Violate(sub, "wrong-answer", fmt.Sprintf("%s returned %s for a short edge next to an endpoint of a nearly 180 degree edge; the exact four-orientation criterion gives %s", name, crossName[got], crossName[w]), cas, detail())
											return false
										}
										return true
									}
									ok := check("CrossingSign(a,b,c,d)", crossInt(s2.CrossingSign(a, b, cc, d)), want) &&
										check("CrossingSign(a,b,d,c)", crossInt(s2.CrossingSign(a, b, d, cc)), want) &&
										check("CrossingSign(b,a,c,d)", crossInt(s2.CrossingSign(b, a, cc, d)), want) &&
										check("CrossingSign(c,d,a,b)", crossInt(s2.CrossingSign(cc, d, a, b)), want) &&
										check("CrossingSign(d,c,b,a)", crossInt(s2.CrossingSign(d, cc, b, a)), want)
									if !ok {
										return
									}
									cr := s2.NewChainEdgeCrosser(a, b, cc)
									if !check("EdgeCrosser(a,b).ChainCrossingSign", crossInt(cr.ChainCrossingSign(d)), want) {
										return
									}
									if !check("EdgeCrosser(a,b).ChainCrossingSign (back along the chain)", crossInt(cr.ChainCrossingSign(cc)), want) {
										return
									}
									cr2 := s2.NewEdgeCrosser(cc, d)
									if !check("EdgeCrosser(c,d).CrossingSign(a,b)", crossInt(cr2.CrossingSign(a, b)), want) {
										return
									}
									if got, w := s2.EdgeOrVertexCrossing(a, b, cc, d), refmodel.EdgeOrVertexCrossing(a, b, cc, d); got != w {
										c.Violate(sub, "wrong-answer", "EdgeOrVertexCrossing differs from the exact reference for a short edge next to an endpoint of a nearly 180 degree edge", cas, detail())
									}
									if got, w := s2.EdgeOrVertexCrossing(cc, d, a, b), refmodel.EdgeOrVertexCrossing(cc, d, a, b); got != w {
										c.Violate(sub, "wrong-answer", "EdgeOrVertexCrossing (edges swapped) differs from the exact reference for a short edge next to an endpoint of a nearly 180 degree edge", cas, detail())
									}
								})
							}
						}
					}
				}
			}
		}
	}
	c.Eval(int(evals))
	c.Nontrivial(int(cross + maybe))
	c.Count(sub+"/quadruples", evals)
	c.Count(sub+"/reference_says_cross", cross)
	c.Count(sub+"/reference_says_maybe (shared endpoint)", maybe)
}
