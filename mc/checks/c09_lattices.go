package checks

import (
	"bytes"
	"fmt"
	"hash/fnv"
	"io"
	"math"
	"sync"

	"github.com/golang/geo/r1"
	"github.com/golang/geo/r3"
	"github.com/golang/geo/s1"
	"github.com/golang/geo/s2"

	"verif/mc/core"
	"verif/mc/lattice"
)

// c09Distinct counts distinct non-trivial encodings (64-bit FNV-1a of the bytes).
type c09Distinct struct {
	sh [64]struct {
		mu sync.Mutex
		m  map[uint64]struct{}
	}
}

func newC09Distinct() *c09Distinct {
	d := &c09Distinct{}
	for i := range d.sh {
		d.sh[i].m = map[uint64]struct{}{}
	}
	return d
}

func (d *c09Distinct) add(b []byte) {
	if len(b) < 8 { // carries no coordinate / id
		return
	}
	h := fnv.New64a()
	h.Write(b)
	k := h.Sum64()
	s := &d.sh[k&63]
	s.mu.Lock()
	s.m[k] = struct{}{}
	s.mu.Unlock()
}

func (d *c09Distinct) n() int {
	n := 0
	for i := range d.sh {
		n += len(d.sh[i].m)
	}
	return n
}

// c09RT round-trips one value of a simple type.
func c09RT[T any](c *core.Ctx, sub string, idx []int, v T, enc func(T, io.Writer) error, dec func(io.Reader) (T, error), d *c09Distinct, detail func() any) {
	c.Guard(sub, idx, detail, func() {
		b1, err := c09Enc(func(w io.Writer) error { return enc(v, w) })
		if err != nil {
			c.Violate(sub, "wrong-answer", sub+": Encode returns an error", idx, detail())
			return
		}
		d.add(b1)
		b2, _ := c09Enc(func(w io.Writer) error { return enc(v, w) })
		if !bytes.Equal(b1, b2) {
			c.Violate(sub, "wrong-answer", sub+": encoding one value twice gives different bytes", idx, detail())
			return
		}
		got, err := dec(bytes.NewReader(b1))
		if err != nil {
			c.Violate(sub, "wrong-answer", sub+": Decode rejects Encode's own output", idx, detail())
			return
		}
		if df := c09Diff(v, got); df != "" {
			c.Violate(sub, "wrong-answer", sub+": decoded value differs at "+df, idx, detail())
			return
		}
		b3, _ := c09Enc(func(w io.Writer) error { return enc(got, w) })
		if !bytes.Equal(b1, b3) {
			c.Violate(sub, "wrong-answer", sub+": encode(decode(encode(v))) differs from encode(v)", idx, detail())
		}
	})
}

func c09Cells(c *core.Ctx) []s2.CellID {
	var ids []s2.CellID
	seen := map[s2.CellID]bool{}
	add := func(id s2.CellID) {
		if !seen[id] {
			seen[id] = true
			ids = append(ids, id)
		}
	}
	top := core.Pick(c, 2, 4)
	for f := 0; f < 6; f++ {
		for l := 0; l <= top; l++ {
			for id := s2.CellIDFromFace(f).ChildBeginAtLevel(l); id != s2.CellIDFromFace(f).ChildEndAtLevel(l); id = id.Next() {
				add(id)
			}
		}
	}
	for _, p := range lattice.PStruct(core.Pick(c, 2, 3)) {
		leaf := s2.VerifCellIDFromPoint(p)
		for l := 0; l <= 30; l++ {
			add(leaf.Parent(l))
		}
	}
	return ids
}

func c09Simple(c *core.Ctx, d *c09Distinct) {
	// ---- points
	pts := append([]s2.Point(nil), lattice.PStruct(core.Pick(c, 2, 3))...)
	pts = append(pts, lattice.PTiny(!c.Quick())...)
	pts = append(pts, lattice.PDeg(!c.Quick())...)
	nz := math.Copysign(0, -1)
	for _, z := range [][3]float64{{1, nz, 0}, {1, 0, nz}, {nz, 1, 0}, {nz, nz, 1}, {-1, nz, nz}, {0, -1, nz}, {nz, nz, -1}, {5e-324, -5e-324, 1}, {1e-310, 1, -1e-310}, {0, 0, 0}, {nz, nz, nz}, {2, 3, 4}, {math.MaxFloat64, -math.MaxFloat64, math.SmallestNonzeroFloat64}} {
		pts = append(pts, s2.Point{Vector: r3.Vector{X: z[0], Y: z[1], Z: z[2]}})
	}
	for i, p := range pts {
		if c.Skip("Point", i) {
			continue
		}
		p := p
		c09RT(c, "Point", []int{i}, p, func(v s2.Point, w io.Writer) error { return v.Encode(w) },
			func(r io.Reader) (s2.Point, error) {
				g := s2.Point{Vector: r3.Vector{X: 7, Y: 8, Z: 9}}
				err := g.Decode(r)
				return g, err
			}, d, func() any { return c09Pts([]s2.Point{p}) })
		if i%197 == 0 {
			c.Sample(map[string]any{"type": "Point", "xyz": [3]float64{p.X, p.Y, p.Z}})
		}
	}
	c.Eval(len(pts))
	c.Count("simple/points", int64(len(pts)))

	// ---- caps
	centres := []s2.Point{pts[0], lattice.FaceSiTiPoint(2, 1<<30, 1<<30), lattice.FaceSiTiPoint(3, 0, 1<<31), s2.OriginPoint(),
		{Vector: r3.Vector{X: 1, Y: nz, Z: 0}}, {Vector: r3.Vector{X: 0, Y: 0, Z: -1}}, lattice.LL(89.999, -179.999)}
	var caps []s2.Cap
	for _, ce := range centres {
		for _, r := range []float64{0, 1e-7, 1e-3, 0.5, math.Pi / 2, math.Pi - 1e-3, math.Pi, 4, -1} {
			caps = append(caps, s2.CapFromCenterAngle(ce, s1.Angle(r)))
		}
		for _, ch := range []float64{0, 5e-324, 1e-30, 2, 4, -1, nz, math.Inf(1)} {
			caps = append(caps, s2.CapFromCenterChordAngle(ce, s1.ChordAngle(ch)))
		}
		caps = append(caps, s2.CapFromPoint(ce), s2.CapFromCenterHeight(ce, 0.3), s2.CapFromCenterArea(ce, 1))
	}
	caps = append(caps, s2.EmptyCap(), s2.FullCap(), s2.Cap{})
	for i, v := range caps {
		if c.Skip("Cap", i) {
			continue
		}
		v := v
		c09RT(c, "Cap", []int{i}, v, func(v s2.Cap, w io.Writer) error { return v.Encode(w) },
			func(r io.Reader) (s2.Cap, error) {
				g := s2.FullCap()
				err := g.Decode(r)
				return g, err
			}, d, func() any { return fmt.Sprint(v) })
	}
	c.Eval(len(caps))
	c.Count("simple/caps", int64(len(caps)))

	// ---- rects: every (lo,hi) pair of the latitude and longitude alphabets,
	// including inverted (wrapping) longitude intervals and empty ones.
	lats := []float64{-math.Pi / 2, -1, nz, 0, 0.5, math.Pi / 2, 1}
	lngs := []float64{-math.Pi, -3, nz, 0, 1, math.Pi}
	var rects []s2.Rect
	for _, a := range lats {
		for _, b := range lats {
			for _, x := range lngs {
				for _, y := range lngs {
					rects = append(rects, s2.Rect{Lat: r1.Interval{Lo: a, Hi: b}, Lng: s1.Interval{Lo: x, Hi: y}})
				}
			}
		}
	}
	rects = append(rects, s2.EmptyRect(), s2.FullRect(), s2.RectFromLatLng(s2.LatLngFromDegrees(45, 180)))
	for i, v := range rects {
		if c.Skip("Rect", i) {
			continue
		}
		v := v
		c09RT(c, "Rect", []int{i}, v, func(v s2.Rect, w io.Writer) error { return v.Encode(w) },
			func(r io.Reader) (s2.Rect, error) {
				g := s2.FullRect()
				err := g.Decode(r)
				return g, err
			}, d, func() any { return fmt.Sprint(v) })
	}
	c.Eval(len(rects))
	c.Count("simple/rects", int64(len(rects)))

	// ---- cell ids (any 64-bit pattern is encodable), cells (valid ids)
	ids := c09Cells(c)
	raw := append([]s2.CellID(nil), ids...)
	for _, x := range []uint64{0, 1, 2, 3, ^uint64(0), 1 << 63, 0xC000000000000000, 0xE000000000000001, 0x1fffffffffffffff, 0x5555555555555555, 0xAAAAAAAAAAAAAAAA} {
		raw = append(raw, s2.CellID(x))
	}
	c.ParallelFor(len(raw), func(i int) {
		if c.Skip("CellID", i) {
			return
		}
		v := raw[i]
		c09RT(c, "CellID", []int{i}, v, func(v s2.CellID, w io.Writer) error { return v.Encode(w) },
			func(r io.Reader) (s2.CellID, error) {
				g := s2.CellID(12345)
				err := g.Decode(r)
				return g, err
			}, d, func() any { return fmt.Sprintf("%#x", uint64(v)) })
	})
	c.Eval(len(raw))
	c.Count("simple/cellids", int64(len(raw)))
	c.ParallelFor(len(ids), func(i int) {
		if c.Skip("Cell", i) {
			return
		}
		v := s2.CellFromCellID(ids[i])
		c09RT(c, "Cell", []int{i}, v, func(v s2.Cell, w io.Writer) error { return v.Encode(w) },
			func(r io.Reader) (s2.Cell, error) {
				g := s2.CellFromCellID(s2.CellIDFromFace(3))
				err := g.Decode(r)
				return g, err
			}, d, func() any { return fmt.Sprintf("%#x", uint64(ids[i])) })
		if i%4001 == 0 {
			c.Sample(map[string]any{"type": "Cell", "id": fmt.Sprintf("%#x", uint64(ids[i])), "level": ids[i].Level()})
		}
	})
	c.Eval(len(ids))
	c.Count("simple/cells", int64(len(ids)))

	// ---- cell unions: all sequences of length 0..3 (t: 0..4) over an alphabet
	// with duplicates, unsorted order, a parent with its child, an invalid id; plus
	// large unions.
	alpha := []s2.CellID{s2.CellIDFromFace(0), s2.CellIDFromFace(0).ChildBeginAtLevel(30), s2.CellIDFromFace(5).ChildEndAtLevel(30).Prev(),
		s2.CellIDFromFace(3).ChildBeginAtLevel(7), s2.CellID(0), s2.CellIDFromFace(3), s2.CellID(^uint64(0))}
	var unions []s2.CellUnion
	var rec func(cur []s2.CellID, left int)
	rec = func(cur []s2.CellID, left int) {
		unions = append(unions, append(s2.CellUnion(nil), cur...))
		if left == 0 {
			return
		}
		for _, a := range alpha {
			rec(append(cur, a), left-1)
		}
	}
	rec(nil, core.Pick(c, 3, 4))
	unions = append(unions, s2.CellUnion(ids[:core.Pick(c, 500, 5000)]), s2.CellUnion{})
	for i, v := range unions {
		if c.Skip("CellUnion", i) {
			continue
		}
		v := v
		c09RT(c, "CellUnion", []int{i}, v, func(v s2.CellUnion, w io.Writer) error { return v.Encode(w) },
			func(r io.Reader) (s2.CellUnion, error) {
				g := s2.CellUnion{1, 2, 3}
				err := g.Decode(r)
				return g, err
			}, d, func() any { return fmt.Sprint(len(v)) })
	}
	c.Eval(len(unions))
	c.Count("simple/cellunions", int64(len(unions)))

	// ---- polylines: all sequences of length 0..4 (t: 0..5) over 8 points
	pa := []s2.Point{lattice.LL(0, 0), lattice.LL(0, 1), {Vector: r3.Vector{X: -1, Y: nz, Z: 0}}, s2.CellIDFromFace(3).Point(),
		lattice.FaceSiTiPoint(1, 1<<31-1, 1), lattice.LL(90, 0), c09Nudge(s2.CellIDFromFace(2).ChildBeginAtLevel(30).Point(), 0), lattice.LL(-45, 180)}
	maxLen := core.Pick(c, 4, 5)
	var lines [][]int
	var recl func(cur []int)
	recl = func(cur []int) {
		lines = append(lines, append([]int(nil), cur...))
		if len(cur) == maxLen {
			return
		}
		for k := range pa {
			recl(append(cur, k))
		}
	}
	recl(nil)
	c.ParallelFor(len(lines), func(i int) {
		if c.Skip("Polyline", i) {
			return
		}
		v := s2.Polyline{}
		for _, k := range lines[i] {
			v = append(v, pa[k])
		}
		c09RT(c, "Polyline", []int{i}, v, func(v s2.Polyline, w io.Writer) error { return v.Encode(w) },
			func(r io.Reader) (s2.Polyline, error) {
				g := s2.Polyline{pa[0], pa[1]}
				err := g.Decode(r)
				return g, err
			}, d, func() any { return c09Pts(v) })
	})
	c.Eval(len(lines))
	c.Count("simple/polylines", int64(len(lines)))
}

// ---------------------------------------------------------------------------
// quadrilaterals through neighbouring cell centres under all replacement masks

func c09Positions(L int, thorough bool) [][2]int64 {
	n := int64(1) << uint(L)
	h := n / 2
	var out [][2]int64
	add := func(i, j int64) {
		if i < 0 || j < 0 || i > n || j > n {
			return
		}
		for _, o := range out {
			if o == [2]int64{i, j} {
				return
			}
		}
		out = append(out, [2]int64{i, j})
	}
	if L == 0 {
		add(1, 1)
		if thorough {
			add(0, 0)
			add(1, 0)
			add(0, 1)
		}
		return out
	}
	add(h, h) // face centre
	add(n, h) // middle of a face edge
	add(n, n) // cube corner
	if thorough {
		add(0, 0)
		add(0, h)
		add(h, 0)
		add(h, n)
		add(0, n)
		add(n, 0)
		add(n-1, n-1)
		add(1, 1)
		add(n-1, h)
		add(1, n-1)
		add(h/2, h/2)
		add(h+h/2, h/2)
	}
	return out
}

func c09Quads(c *core.Ctx, d *c09Distinct) {
	sub := "polygon-cell-quads"
	thorough := !c.Quick()
	nNudge := core.Pick(c, 1, 3)
	var mu sync.Mutex
	total := &c09Stats{}
	var cases, skippedMasks int64
	c.ParallelFor(31*6, func(w int) {
		L, f := w/6, w%6
		st := &c09Stats{distinct: d}
		var n, sk int64
		for pi, pos := range c09Positions(L, thorough) {
			if c.Expired() {
				c.CapHit(fmt.Sprintf("%s: wall budget reached at level %d face %d", sub, L, f))
				break
			}
			cells := c09Around(f, L, pos[0], pos[1])
			k := len(cells)
			if k < 3 {
				continue
			}
			pivot := c09Vertex(f, L, pos[0], pos[1])
			probes := []s2.Point{pivot, s2.OriginPoint(), {Vector: pivot.Mul(-1)}, s2.CellIDFromFace(f).Point()}
			var pc []s2.Cell
			for _, id := range cells {
				probes = append(probes, id.Point())
				pc = append(pc, s2.CellFromCellID(id))
			}
			nm := 1 << uint(2*k)
			for mask := 0; mask < nm; mask++ {
				hasOff := false
				for v := 0; v < k; v++ {
					hasOff = hasOff || (mask>>(2*uint(v)))&3 == 3
				}
				for ng := 0; ng < nNudge; ng++ {
					if ng > 0 && !hasOff {
						continue
					}
					verts := make([]s2.Point, k)
					ok := true
					for v := 0; v < k && ok; v++ {
						verts[v], ok = c09VertexFor(cells[v], (mask>>(2*uint(v)))&3, pivot, ng+v)
					}
					if !ok {
						sk++
						continue
					}
					nrot := 1
					if thorough {
						nrot = k
					}
					for rot := 0; rot < nrot; rot++ {
						if c.Skip(sub, L, f, pi, mask, ng, rot) {
							continue
						}
						loop := append(append([]s2.Point(nil), verts[rot:]...), verts[:rot]...)
						c09CheckPolygon(c, sub, []int{L, f, pi, mask, ng, rot}, [][]s2.Point{loop}, 0, probes, pc, st,
							map[string]any{"level": L, "face": f, "vertex_ij": pos, "mask": mask})
						n++
						if n%9973 == 1 && f == L%6 {
							c.Sample(map[string]any{"type": "Polygon", "sub": sub, "level": L, "face": f, "cell_vertex": pos, "mask_base4": fmt.Sprintf("%0*b", 2*k, mask), "vertices": c09Pts(loop)})
						}
					}
				}
			}
		}
		mu.Lock()
		total.add(st)
		cases += n
		skippedMasks += sk
		mu.Unlock()
	})
	c.Eval(int(cases))
	c.Count(sub+"/polygons", cases)
	c.Count(sub+"/masks_not_existing_at_level(skipped)", skippedMasks)
	total.flush(c, sub)
	if c.OnlySub == "" && (total.compressed == 0 || total.lossless == 0 || total.offCentre == 0) {
		panic(core.HarnessError("C09 " + sub + ": a format or the off-centre list was never exercised"))
	}
	nl := 0
	for i := 0; i < 31; i++ {
		if total.levels[i] > 0 {
			nl++
		}
	}
	if c.OnlySub == "" && nl < 31 && !c.Expired() {
		panic(core.HarnessError(fmt.Sprintf("C09 %s: only %d of 31 snap levels were chosen by the encoder", sub, nl)))
	}
}

// ---------------------------------------------------------------------------
// vertex sequences aimed at the delta coder / face runs

func c09Alphabet(L int) []int64 {
	m := int64(1)<<uint(L) - 1
	h := (m + 1) / 2
	var out []int64
	for _, v := range []int64{0, 1, 2, h - 1, h, h + 1, m - 2, m - 1, m} {
		if v < 0 || v > m {
			continue
		}
		dup := false
		for _, o := range out {
			dup = dup || o == v
		}
		if !dup {
			out = append(out, v)
		}
	}
	return out
}

func c09Centre(f, L int, i, j int64) s2.Point {
	sh := uint(30 - L)
	return lattice.FaceSiTiPoint(f, uint32((2*i+1)<<sh), uint32((2*j+1)<<sh))
}

func c09Sequences(c *core.Ctx, d *c09Distinct) {
	sub := "polygon-coder-sequences"
	levels := core.Pick(c, []int{30, 16, 2}, []int{30, 29, 24, 16, 15, 8, 5, 3, 2, 1})
	faces := core.Pick(c, []int{0, 5}, []int{0, 1, 2, 3, 4, 5})
	type job struct{ L, f, perm int }
	var jobs []job
	for _, L := range levels {
		for _, f := range faces {
			for perm := 0; perm < 2; perm++ {
				jobs = append(jobs, job{L, f, perm})
			}
		}
	}
	var mu sync.Mutex
	total := &c09Stats{}
	var cases int64
	probes := []s2.Point{s2.OriginPoint(), lattice.LL(10, 10), lattice.LL(-80, 100)}
	c.ParallelFor(len(jobs), func(w int) {
		j := jobs[w]
		st := &c09Stats{distinct: d}
		al := c09Alphabet(j.L)
		na := len(al)
		pts := make([]s2.Point, na)
		for k := range al {
			q := al[na-1-k]
			if j.perm == 1 {
				q = al[(k*2+1)%na]
			}
			pts[k] = c09Centre(j.f, j.L, al[k], q)
		}
		var n int64
		for length := 3; length <= 4; length++ {
			tot := 1
			for i := 0; i < length; i++ {
				tot *= na
			}
			for code := 0; code < tot; code++ {
				if c.Skip(sub, w, length, code) {
					continue
				}
				if code%4096 == 0 && c.Expired() {
					c.CapHit(sub + ": wall budget reached")
					break
				}
				loop := make([]s2.Point, length)
				x := code
				for i := 0; i < length; i++ {
					loop[i] = pts[x%na]
					x /= na
				}
				c09CheckPolygon(c, sub, []int{w, length, code}, [][]s2.Point{loop}, 0, probes, nil, st, map[string]any{"level": j.L, "face": j.f})
				n++
			}
		}
		mu.Lock()
		total.add(st)
		cases += n
		mu.Unlock()
	})
	// face changes: sequences over face x {(0,0),(max,max)} cells
	// (level 0 stands for: the six face centres as golang/geo computes them, whose
	// zero coordinates are partly negative zeros, and the six plain axis vectors)
	flevels := core.Pick(c, []int{30, 0}, []int{30, 2, 1, 0})
	c.ParallelFor(len(flevels)*12, func(w int) {
		L := flevels[w/12]
		first := w % 12
		st := &c09Stats{distinct: d}
		m := int64(1)<<uint(L) - 1
		var pts []s2.Point
		for f := 0; f < 6; f++ {
			if L == 0 {
				ax := [6]r3.Vector{{X: 1}, {Y: 1}, {Z: 1}, {X: -1}, {Y: -1}, {Z: -1}}
				pts = append(pts, s2.CellIDFromFace(f).Point(), s2.Point{Vector: ax[f]})
				continue
			}
			pts = append(pts, c09Centre(f, L, 0, 0), c09Centre(f, L, m, m))
		}
		var n int64
		for length := 3; length <= 4; length++ {
			tot := 1
			for i := 1; i < length; i++ {
				tot *= 12
			}
			for code := 0; code < tot; code++ {
				if c.Skip(sub+"-faces", w, length, code) {
					continue
				}
				loop := []s2.Point{pts[first]}
				x := code
				for i := 1; i < length; i++ {
					loop = append(loop, pts[x%12])
					x /= 12
				}
				c09CheckPolygon(c, sub+"-faces", []int{w, length, code}, [][]s2.Point{loop}, 0, probes, nil, st, map[string]any{"level": L})
				n++
			}
		}
		mu.Lock()
		total.add(st)
		cases += n
		mu.Unlock()
	})
	// every 16-bit first difference (the value the zig-zag coder and the bit
	// interleaver see for the second vertex), positive in one coordinate and negative
	// in the other, followed by the matching extreme second differences
	dl := core.Pick(c, []int{30}, []int{30, 17})
	c.ParallelFor(len(dl)*64, func(w int) {
		L := dl[w/64]
		st := &c09Stats{distinct: d}
		h := int64(1) << uint(L-1)
		var n int64
		for x := int64(-32768) + int64(w%64); x < 32768; x += 64 {
			if c.Skip(sub+"-deltas", w, int(x)) {
				continue
			}
			loop := []s2.Point{c09Centre(3, L, h, h), c09Centre(3, L, h+x, h-x-1), c09Centre(3, L, h-3, h+x/2+5)}
			c09CheckPolygon(c, sub+"-deltas", []int{w, int(x)}, [][]s2.Point{loop}, 0, probes, nil, st, map[string]any{"level": L, "first_difference": x})
			n++
		}
		mu.Lock()
		total.add(st)
		cases += n
		mu.Unlock()
	})
	c.Eval(int(cases))
	c.Count(sub+"/polygons", cases)
	total.flush(c, sub)
}

// ---------------------------------------------------------------------------
// loops of 63..130 vertices (the bound is encoded from 64 vertices on)

func c09Ring(centre s2.Point, radius float64, n, L, offEvery int) []s2.Point {
	reg := s2.RegularLoop(centre, s1.Angle(radius), n)
	var out []s2.Point
	for i, v := range reg.Vertices() {
		p := v
		if L >= 0 {
			p = s2.VerifCellIDFromPoint(v).Parent(L).Point()
		}
		if offEvery > 0 && i%offEvery == 0 {
			p = c09Nudge(p, i)
		}
		if len(out) > 0 && out[len(out)-1] == p {
			continue
		}
		out = append(out, p)
	}
	for len(out) > 1 && out[0] == out[len(out)-1] {
		out = out[:len(out)-1]
	}
	return out
}

func c09BigLoops(c *core.Ctx, d *c09Distinct) {
	sub := "polygon-many-vertices"
	centres := []s2.Point{s2.CellIDFromFace(0).Point(), c09Vertex(1, 1, 2, 1), c09Vertex(4, 0, 1, 1), lattice.LL(90, 0), lattice.LL(-89.5, 30), lattice.LL(0.02, 179.99)}
	ns := core.Pick(c, []int{63, 64, 100, 130}, []int{33, 63, 64, 65, 100, 127, 128, 130, 300})
	levels := core.Pick(c, []int{30, 14, -1}, []int{30, 24, 20, 14, 12, -1})
	offs := []int{0, 7, 1, 2}
	radii := core.Pick(c, []float64{0.1}, []float64{0.1, 0.7, 1e-3})
	type job struct {
		ce, n, L, off int
		r             float64
	}
	var jobs []job
	for ce := range centres {
		for _, n := range ns {
			for _, L := range levels {
				for _, off := range offs {
					for _, r := range radii {
						if r < 0.01 && L >= 0 && L < 20 {
							continue // cells larger than the ring: not a loop
						}
						jobs = append(jobs, job{ce, n, L, off, r})
					}
				}
			}
		}
	}
	var mu sync.Mutex
	total := &c09Stats{}
	var cases int64
	c.ParallelFor(len(jobs), func(w int) {
		if c.Skip(sub, w) {
			return
		}
		j := jobs[w]
		st := &c09Stats{distinct: d}
		ring := c09Ring(centres[j.ce], j.r, j.n, j.L, j.off)
		if len(ring) < 3 {
			return
		}
		probes := append([]s2.Point{centres[j.ce], s2.OriginPoint(), {Vector: centres[j.ce].Mul(-1)}}, ring[:8]...)
		cells := []s2.Cell{s2.CellFromPoint(centres[j.ce]), s2.CellFromCellID(s2.VerifCellIDFromPoint(ring[0]).Parent(10))}
		extra := map[string]any{"n": j.n, "level": j.L, "off_every": j.off, "radius": j.r}
		c09CheckPolygon(c, sub, []int{w}, [][]s2.Point{ring}, 0, probes, cells, st, extra)
		c09CheckPolygon(c, sub, []int{w}, [][]s2.Point{ring}, 1, probes, cells, st, extra)
		// shell with a hole of 64 vertices (t: and an island inside the hole)
		hole := c09Ring(centres[j.ce], j.r/2, 64, j.L, 0)
		n := int64(2)
		if len(hole) >= 3 {
			c09CheckPolygon(c, sub, []int{w}, [][]s2.Point{ring, hole}, 0, probes, cells, st, extra)
			n++
		}
		if w%17 == 0 {
			c.Sample(map[string]any{"type": "Polygon", "sub": sub, "vertices_in_ring": len(ring), "snap_level": j.L, "off_centre_every": j.off, "first_vertex": c09Pts(ring[:1])})
		}
		mu.Lock()
		total.add(st)
		cases += n
		mu.Unlock()
	})
	c.Eval(int(cases))
	c.Count(sub+"/polygons", cases)
	total.flush(c, sub)
	if c.OnlySub == "" && total.boundEncoded == 0 {
		panic(core.HarnessError("C09 " + sub + ": no loop with an encoded bound"))
	}
}

// ---------------------------------------------------------------------------
// polygons with 0..3 loops, holes, 13 loops, empty, full

func c09QuadAt(f, L int, vi, vj int64, mask int) []s2.Point {
	cells := c09Around(f, L, vi, vj)
	pivot := c09Vertex(f, L, vi, vj)
	var out []s2.Point
	for v, id := range cells {
		p, ok := c09VertexFor(id, (mask>>(2*uint(v)))&3, pivot, v)
		if !ok {
			p = id.Point()
		}
		out = append(out, p)
	}
	return out
}

func c09Multi(c *core.Ctx, d *c09Distinct) {
	sub := "polygon-multi-loop"
	st := &c09Stats{distinct: d}
	var cases int64
	probes := []s2.Point{s2.OriginPoint(), lattice.LL(10, 10), lattice.LL(-80, 100)}
	for f := 0; f < 6; f++ {
		probes = append(probes, s2.CellIDFromFace(f).Point(), c09Vertex(f, 0, 1, 1), c09Vertex(f, 1, 2, 1))
	}
	run := func(idx []int, loops [][]s2.Point, mode int, extra map[string]any) {
		if c.Skip(sub, idx...) {
			return
		}
		c09CheckPolygon(c, sub, idx, loops, mode, probes, nil, st, extra)
		cases++
	}
	// special polygons, through every constructor that yields them
	specials := []func() *s2.Polygon{
		func() *s2.Polygon { return s2.PolygonFromLoops(nil) },
		func() *s2.Polygon { return s2.PolygonFromLoops([]*s2.Loop{s2.EmptyLoop()}) },
		func() *s2.Polygon { return s2.FullPolygon() },
		func() *s2.Polygon { return s2.PolygonFromLoops([]*s2.Loop{s2.FullLoop()}) },
		func() *s2.Polygon { p := s2.FullPolygon(); p.Invert(); return p },
		func() *s2.Polygon { p := s2.PolygonFromLoops(nil); p.Invert(); return p },
		func() *s2.Polygon { return s2.PolygonFromCell(s2.CellFromCellID(s2.CellIDFromFace(2))) },
		func() *s2.Polygon { return s2.PolygonFromOrientedLoops(nil) },
	}
	for i, mk := range specials {
		if c.Skip(sub+"-special", i) {
			continue
		}
		p := mk()
		c09RoundTripPolygon(c, sub+"-special", []int{i}, p, probes, []s2.Cell{s2.CellFromCellID(s2.CellIDFromFace(1))}, st, func() any { return fmt.Sprintf("special polygon #%d", i) })
		cases++
	}
	// nested: shell / hole / island around one structural vertex, levels apart by >= 3
	levelSets := core.Pick(c, [][]int{{2, 6, 10}, {10, 20, 30}, {1, 15, 29}, {24, 27, 30}}, [][]int{{2, 6, 10}, {10, 20, 30}, {1, 15, 29}, {24, 27, 30}, {0, 4, 8}, {3, 6, 9}, {5, 17, 30}, {12, 16, 20}})
	maskSets := core.Pick(c, []int{0x00, 0xFF, 0x03, 0x41}, []int{0x00, 0xFF, 0x03, 0x41, 0x55, 0xAA, 0x1B, 0xC0})
	for li, ls := range levelSets {
		for f := 0; f < 6; f++ {
			for kind := 0; kind < 3; kind++ {
				for nl := 1; nl <= 3; nl++ {
					for mi, m0 := range maskSets {
						for mj, m1 := range maskSets {
							if nl == 1 && mj > 0 {
								continue
							}
							var loops [][]s2.Point
							for k := 0; k < nl; k++ {
								L := ls[k]
								n := int64(1) << uint(L)
								vi, vj := n, n
								switch {
								case L == 0:
								case kind == 0:
									vi, vj = n/2, n/2
								case kind == 1:
									vi, vj = n, n/2
								}
								m := m0
								if k == 1 {
									m = m1
								} else if k == 2 {
									m = m0 ^ m1
								}
								loops = append(loops, c09QuadAt(f, L, vi, vj, m))
							}
							extra := map[string]any{"levels": ls[:nl], "face": f, "position_kind": kind}
							run([]int{0, li, f, kind, nl, mi, mj}, loops, 0, extra)
							if !c.Quick() {
								run([]int{1, li, f, kind, nl, mi, mj}, loops, 1, extra)
							}
						}
					}
				}
			}
		}
	}
	// disjoint islands on 2..3 faces, each at its own level
	dl := core.Pick(c, []int{3, 30}, []int{3, 17, 30})
	for a := 0; a < 6; a++ {
		for b := a + 1; b < 6; b++ {
			for cc := b; cc < 6; cc++ { // cc == b: two loops only
				for _, la := range dl {
					for _, lb := range dl {
						for _, lc := range dl {
							if cc == b && lc != dl[0] {
								continue
							}
							loops := [][]s2.Point{c09QuadAt(a, la, 1<<uint(la-1), 1<<uint(la-1), 0), c09QuadAt(b, lb, 1<<uint(lb-1), 1<<uint(lb-1), 0x03)}
							if cc != b {
								loops = append(loops, c09QuadAt(cc, lc, 1<<uint(lc-1), 1<<uint(lc-1), 0))
							}
							run([]int{2, a, b, cc, la, lb, lc}, loops, 0, map[string]any{"faces": []int{a, b, cc}, "levels": []int{la, lb, lc}})
						}
					}
				}
			}
		}
	}
	// 13 loops (cumulativeEdges is switched on above 12 loops), 12 for contrast
	for vi, variant := range [][]int{{5, 5, 5}, {30, 30, 30}, {5, 6, 7}, {12, 30, 30}} {
		for _, nloops := range []int{12, 13, 14} {
			for _, mask := range []int{0, 0x03} {
				var loops [][]s2.Point
				for k := 0; k < nloops; k++ {
					L := variant[k%3]
					n := int64(1) << uint(L)
					f := k % 6
					switch k / 6 {
					case 0:
						loops = append(loops, c09QuadAt(f, L, n/2, n/2, mask))
					case 1:
						loops = append(loops, c09QuadAt(f, L, n/4, n/4, 0))
					default:
						loops = append(loops, c09QuadAt(f, L, n/4, 3*n/4, mask))
					}
				}
				run([]int{3, vi, nloops, mask}, loops, 0, map[string]any{"loops": nloops, "levels": variant})
				if k := len(loops); k == 13 && vi == 0 && mask == 0 {
					c.Sample(map[string]any{"type": "Polygon", "sub": sub, "loops": k, "levels": variant})
				}
			}
		}
	}
	c.Eval(int(cases))
	c.Count(sub+"/polygons", cases)
	st.flush(c, sub)
}
