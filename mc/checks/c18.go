package checks

import (
	"fmt"
	"math"
	"math/big"
	"sort"
	"sync"
	"sync/atomic"
	"time"

	"github.com/golang/geo/r3"
	"github.com/golang/geo/s2"

	"verif/mc/core"
	"verif/mc/refmodel"
)

// C18 — area, curvature and centroid are consistent with containment and
// orientation (engine E3: bounded-exhaustive loop/polygon catalogue against
// high-precision and exact reference models).
//
// Reference models (none of them calls the code under test):
//   * reference turning angle: exact edge planes, exact orientation signs with the
//     documented symbolic perturbation, angles in 384-bit arithmetic;
//   * reference area: 2*pi - reference turning angle (Gauss-Bonnet), cross-checked
//     against a 384-bit signed fan sum (Van Oosterom-Strackee triangle formula);
//   * reference containment: refmodel.NewLoop(v).Contains on a fixed probe set;
//     a contained probe whose distance to every edge exceeds d contributes a disc
//     of radius d to the contained set, which bounds the area from below (and the
//     complement's from above).
//
// Error bounds asserted: the turning angle's documented maximum error
// (*Loop).turningAngleMaxError() (exported by the verif hook), which Loop.Area
// also uses as the error estimate of its triangle sum.

func init() {
	Registry["C18"] = &Check{Level: "exploration", QuickBudget: 300, ThoroughBudget: 1500, Run: runC18}
}

const c18Eps = 2.220446049250313e-16

// one unit in the last place of 4*pi: the result of Area is a float64 up to 4*pi
const c18UlpFourPi = 8 * c18Eps

// ---------------------------------------------------------------- metrics

type c18Metrics struct {
	mu    sync.Mutex
	worst map[string]float64
	where map[string]string
}

func (m *c18Metrics) obs(name string, ratio float64, where string) {
	m.mu.Lock()
	if ratio > m.worst[name] || m.where[name] == "" {
		m.worst[name] = ratio
		m.where[name] = where
	}
	m.mu.Unlock()
}

// ---------------------------------------------------------------- probes

type c18Probes struct {
	p    []s2.Point
	d    float64 // clearance radius; discs of radius d around probes are disjoint
	capA float64 // lower bound of the area of a disc of radius d
}

func c18Angle(a, b r3.Vector) float64 { return math.Atan2(a.Cross(b).Norm(), a.Dot(b)) }

// c18MakeProbes: n points of a golden-angle spiral (a fixed, deterministic set in
// general position with respect to the coordinate planes).
func c18MakeProbes(n int) *c18Probes {
	pr := &c18Probes{}
	golden := math.Pi * (3 - math.Sqrt(5))
	for i := 0; i < n; i++ {
		z := 1 - (2*float64(i)+1)/float64(n)
		r := math.Sqrt(1 - z*z)
		th := golden * float64(i)
		pr.p = append(pr.p, s2.Point{Vector: r3.Vector{X: r * math.Cos(th), Y: r * math.Sin(th), Z: z}.Normalize()})
	}
	minSep := math.Pi
	for i := range pr.p {
		for j := i + 1; j < len(pr.p); j++ {
			if a := c18Angle(pr.p[i].Vector, pr.p[j].Vector); a < minSep {
				minSep = a
			}
		}
	}
	pr.d = 0.45 * minSep
	pr.capA = 2 * math.Pi * (1 - math.Cos(pr.d-1e-6))
	return pr
}

// c18FarFromEdge reports (conservatively) whether p is farther than d from the
// edge ab.  Plain float64 geometry with a 1e-6 margin.
func c18FarFromEdge(p, a, b r3.Vector, d float64) bool {
	const margin = 1e-6
	da, db := c18Angle(p, a), c18Angle(p, b)
	if da <= d+margin || db <= d+margin {
		return false
	}
	n := a.Cross(b)
	nn := n.Norm()
	if nn < 1e-9 {
		// a and b nearly the same direction: the edge is (within 1e-9) the point a.
		// nearly antipodal: the edge is ill-conditioned; do not use this probe.
		return a.Dot(b) > 0
	}
	if p.Dot(n.Cross(a)) >= -margin && p.Dot(n.Cross(b)) <= margin {
		// the projection of p onto the great circle falls inside (or next to) the arc
		if math.Asin(math.Min(1, math.Abs(p.Dot(n))/nn)) <= d+margin {
			return false
		}
	}
	return true
}

// farProbes returns the indices of the probes farther than d from every edge.
func (pr *c18Probes) farProbes(loops ...[]s2.Point) []int {
	var out []int
	for i, p := range pr.p {
		far := true
	outer:
		for _, v := range loops {
			for k := range v {
				if !c18FarFromEdge(p.Vector, v[k].Vector, v[(k+1)%len(v)].Vector, pr.d) {
					far = false
					break outer
				}
			}
		}
		if far {
			out = append(out, i)
		}
	}
	return out
}

// ---------------------------------------------------------------- containment

// c18Sign is the exact perturbed orientation sign with a float64 filter: the
// float64 determinant of three (near-)unit vectors has an absolute error below
// 1e-14, so a value beyond +-1e-13 has the sign of the exact determinant;
// everything else goes to refmodel.SoSSign.
func c18Sign(a, b, c s2.Point) int {
	det := a.Dot(b.Cross(c.Vector))
	if det > 1e-13 {
		return 1
	}
	if det < -1e-13 {
		return -1
	}
	return refmodel.SoSSign(a, b, c)
}

// c18RefLoop is refmodel.Loop with the filtered sign: the same definition
// (origin containment from refmodel.NewLoop, parity of exact crossings of the
// segment origin->p), evaluated faster.  Only for points p that are not vertices.
type c18RefLoop struct {
	v            []s2.Point
	originInside bool
	slow         *refmodel.Loop
}

func c18NewRefLoop(v []s2.Point) *c18RefLoop {
	rl := refmodel.NewLoop(v)
	return &c18RefLoop{v: v, originInside: rl.OriginInside, slow: rl}
}

func (l *c18RefLoop) contains(p s2.Point) bool {
	o := s2.OriginPoint()
	n := len(l.v)
	for _, q := range l.v {
		if q == p || q == o {
			return l.slow.Contains(p)
		}
	}
	inside := l.originInside
	for i := 0; i < n; i++ {
		c, d := l.v[i], l.v[(i+1)%n]
		acb := c18Sign(o, c, p)
		if c18Sign(c, p, d) != acb || c18Sign(p, d, o) != acb || c18Sign(d, o, c) != acb {
			continue
		}
		inside = !inside
	}
	return inside
}

// ---------------------------------------------------------------- helpers

func c18Clone(v []s2.Point) []s2.Point { return append([]s2.Point(nil), v...) }

func c18Reverse(v []s2.Point) []s2.Point {
	out := make([]s2.Point, len(v))
	for i, p := range v {
		out[len(v)-1-i] = p
	}
	return out
}

func c18Rotate(v []s2.Point, k int) []s2.Point {
	n := len(v)
	out := make([]s2.Point, n)
	for i := range v {
		out[i] = v[(i+k)%n]
	}
	return out
}

func c18Verts(v []s2.Point) [][3]float64 {
	out := make([][3]float64, len(v))
	for i, p := range v {
		out[i] = [3]float64{p.X, p.Y, p.Z}
	}
	return out
}

func c18Bits(x float64) string { return fmt.Sprintf("%v (0x%016x)", x, math.Float64bits(x)) }

// c18Ref is the reference data of one vertex chain.
type c18Ref struct {
	turn  *big.Float // reference total turning angle
	area  *big.Float // 2*pi - turn, in [0, 4*pi]
	turnF float64
	areaF float64
	// degenerate: all exact orientation determinants of consecutive triples vanish
	collinear bool
	sameDir   bool // some edge joins two points of exactly the same direction
}

func c18Reference(v []s2.Point) *c18Ref {
	r := &c18Ref{}
	turn, ok := c18RefTurn(v)
	if !ok {
		// An edge between two floats of exactly the same direction has no plane.
		// For a triangle the chain is a degenerate digon: its turning angle is
		// +-2*pi with the sign of the perturbed orientation.
		if len(v) != 3 {
			panic(core.HarnessError("C18 catalogue: zero-length edge in a loop with more than 3 vertices"))
		}
		r.sameDir = true
		turn = c18new().Set(c18TwoPi)
		if refmodel.SoSSign(v[0], v[1], v[2]) < 0 {
			turn.Neg(turn)
		}
	}
	r.turn = turn
	r.area = c18new().Sub(c18TwoPi, turn)
	r.turnF = c18Float(turn)
	r.areaF = c18Float(r.area)
	if r.areaF < -1e-30 || r.areaF > 4*math.Pi+1e-30 {
		panic(core.HarnessError(fmt.Sprintf("C18 catalogue: reference turning angle %v outside [-2pi,2pi]: loop is not simple", r.turnF)))
	}
	r.collinear = true
	n := len(v)
	for i := 0; i < n; i++ {
		if refmodel.ExactDetSign(v[i], v[(i+1)%n], v[(i+2)%n]) != 0 {
			r.collinear = false
			break
		}
	}
	return r
}

// c18FanStable reports whether every fan diagonal from vertex o is shorter than
// pi - 1e-3 and longer than 0 (so that triangle areas are well defined).
func c18FanStable(v []s2.Point, o int) bool {
	for i := range v {
		if i == o {
			continue
		}
		if c18Angle(v[o].Vector, v[i].Vector) > math.Pi-1e-3 {
			return false
		}
	}
	return true
}

// ---------------------------------------------------------------- per-loop check

type c18Opts struct {
	rotations   bool
	containment bool
	libFan      bool
}

type c18Run struct {
	c      *core.Ctx
	m      *c18Metrics
	probes *c18Probes
	// vacuity counters
	nAmbiguous, nSwitched, nCollinear, nNearZeroContain, nLibFan, nRot atomic.Int64
}

// areaTol is the documented error of Loop.Area for this loop: the bound that
// Area itself uses for its triangle sum (turningAngleMaxError), plus 4 ulps of
// 4*pi for the final additions.
func c18AreaTol(l *s2.Loop) float64 { return l.VerifTurningAngleMaxError() + c18UlpFourPi }

// turnTol: the documented maximum error of TurningAngle plus the documented
// clamp (the result is clamped to +-(2*pi - 4*dblEpsilon)).
func c18TurnTol(l *s2.Loop) float64 { return l.VerifTurningAngleMaxError() + 4*c18Eps + 2*c18Eps }

func (r *c18Run) violate(sub, kind, desc string, idx int, L c18Loop, extra map[string]any) {
	d := map[string]any{"loop": L.name, "class": L.class, "vertices": c18Verts(L.v)}
	for k, v := range extra {
		d[k] = v
	}
	r.c.Violate(sub, kind, desc, []int{idx}, d)
}

// checkLoop evaluates every loop-level assertion of the property on one
// catalogue entry.  It returns whether the entry is non-trivial (see c.Rule).
func (r *c18Run) checkLoop(sub string, idx int, L c18Loop, o c18Opts) (nontrivial bool) {
	c := r.c
	v := L.v
	n := len(v)
	ref := c18Reference(v)

	// harness self-check: the two reference area models agree (mod 4*pi)
	if !ref.sameDir {
		for _, org := range []int{0, n / 2} {
			if c18FanStable(v, org) {
				fan := c18RefFanArea(v, org)
				d := c18new().Sub(fan, c18Mod4Pi(ref.area))
				d.Abs(d)
				df := c18Float(d)
				if df > 2*math.Pi {
					df = 4*math.Pi - df
				}
				if df > 1e-60 {
					panic(core.HarnessError(fmt.Sprintf("C18 reference models disagree on %q: Gauss-Bonnet %v, fan(%d) %v", L.name, ref.areaF, org, c18Float(fan))))
				}
				c.Count("reference_fan_vs_gauss_bonnet_agree", 1)
				break
			}
		}
	}

	var l0, l1 *s2.Loop
	var a0, t0, a1, t1, e0 float64
	var n0, n1 bool
	rv := c18Reverse(v)
	c.Guard(sub, []int{idx}, func() any { return map[string]any{"loop": L.name, "vertices": c18Verts(v)} }, func() {
		l0 = s2.LoopFromPoints(c18Clone(v))
		a0, t0, n0 = l0.Area(), l0.TurningAngle(), l0.IsNormalized()
		e0 = l0.VerifTurningAngleMaxError()
		l1 = s2.LoopFromPoints(c18Clone(rv))
		a1, t1, n1 = l1.Area(), l1.TurningAngle(), l1.IsNormalized()
	})
	if l0 == nil || l1 == nil {
		return false
	}
	c.Eval(2)
	tolA := c18AreaTol(l0)
	tolT := c18TurnTol(l0)
	base := map[string]any{"area": a0, "turning_angle": t0, "is_normalized": n0, "area_inverse": a1, "turning_angle_inverse": t1,
		"is_normalized_inverse": n1, "reference_area": ref.areaF, "reference_turning_angle": ref.turnF, "max_error": e0}
	with := func(kv ...any) map[string]any {
		out := map[string]any{}
		for k, v := range base {
			out[k] = v
		}
		for i := 0; i+1 < len(kv); i += 2 {
			out[kv[i].(string)] = kv[i+1]
		}
		return out
	}

	// --- range
	if !(a0 >= 0 && a0 <= 4*math.Pi) || !(a1 >= 0 && a1 <= 4*math.Pi) {
		r.violate(sub, "wrong-answer", "Loop.Area outside the documented range [0, 4*pi] ("+L.class+")", idx, L, base)
	}

	// --- turning angle against the reference, within its documented maximum error
	dT := c18DiffF(t0, ref.turn)
	r.m.obs("turning_vs_reference/"+L.class, dT/tolT, L.name)
	if dT > tolT {
		r.violate(sub, "bound-exceeded", "Loop.TurningAngle differs from the exact turning angle by more than turningAngleMaxError ("+L.class+")", idx, L, with("error", dT, "tolerance", tolT))
	}
	// --- exactly negated by inversion
	if t1 != -t0 {
		r.violate(sub, "wrong-answer", "Loop.TurningAngle of the reversed vertex order is not the exact negation ("+L.class+")", idx, L, base)
	}

	// --- area against the reference (= sum over any triangulation), documented error
	dA := c18DiffF(a0, ref.area)
	r.m.obs("area_vs_reference/"+L.class, dA/tolA, L.name)
	if dA > tolA {
		desc := "Loop.Area differs from the exact area (sum over a triangulation) by more than the documented error (" + L.class + ")"
		if c18CircDist4Pi(a0, ref.areaF) <= tolA {
			desc = "Loop.Area is near 0 / 4*pi on the wrong side: the loop's orientation under the documented perturbation says the opposite (" + L.class + ")"
		}
		r.violate(sub, "bound-exceeded", desc, idx, L, with("error", dA, "tolerance", tolA))
	}
	invArea := c18new().Sub(c18FourPi, ref.area)
	dA1 := c18DiffF(a1, invArea)
	r.m.obs("area_vs_reference/"+L.class, dA1/tolA, L.name+" (inverse)")
	if dA1 > tolA {
		desc := "Loop.Area differs from the exact area (sum over a triangulation) by more than the documented error (" + L.class + ", inverse)"
		if c18CircDist4Pi(a1, c18Float(invArea)) <= tolA {
			desc = "Loop.Area is near 0 / 4*pi on the wrong side: the loop's orientation under the documented perturbation says the opposite (" + L.class + ", inverse)"
		}
		r.violate(sub, "bound-exceeded", desc, idx, L, with("error", dA1, "tolerance", tolA))
	}

	// --- Loop.Centroid against the reference integral of position (no documented
	// error bound: recorded, not asserted), and Centroid(inverse) = Centroid
	if n <= 40 || !r.c.Quick() {
		var c0, c1 r3.Vector
		c.Guard(sub, []int{idx}, func() any { return map[string]any{"loop": L.name, "op": "Centroid"} }, func() {
			c0, c1 = l0.Centroid().Vector, l1.Centroid().Vector
		})
		rc := c18RefCentroid(v)
		r.m.obs("loop_centroid_abs_error_vs_reference (recorded only)/"+L.class, c18CentroidErr(c0, rc, 1), L.name)
		r.m.obs("loop_centroid_abs_error_vs_reference (recorded only)/"+L.class, c18CentroidErr(c1, rc, -1), L.name+" (inverse)")
	}

	// --- Area(L) + Area(inverse L) = 4*pi
	dS := math.Abs((a0 - 2*math.Pi) + (a1 - 2*math.Pi))
	r.m.obs("area_plus_inverse/"+L.class, dS/(2*tolA), L.name)
	if dS > 2*tolA {
		r.violate(sub, "bound-exceeded", "Loop.Area(L) + Loop.Area(inverse L) differs from 4*pi by more than the documented error ("+L.class+")", idx, L, with("error", dS, "tolerance", 2*tolA))
	}

	// --- Invert() produces the reversed vertex order and the same answers
	c.Guard(sub, []int{idx}, func() any { return map[string]any{"loop": L.name, "op": "Invert"} }, func() {
		li := s2.LoopFromPoints(c18Clone(v))
		li.Invert()
		same := li.NumVertices() == n
		for i := 0; same && i < n; i++ {
			same = li.Vertex(i) == rv[i]
		}
		if !same {
			r.violate(sub, "wrong-answer", "Loop.Invert does not produce the reversed vertex order ("+L.class+")", idx, L, base)
			return
		}
		ai, ti, ni := li.Area(), li.TurningAngle(), li.IsNormalized()
		if ti != -t0 {
			r.violate(sub, "wrong-answer", "Loop.TurningAngle is not exactly negated by Invert ("+L.class+")", idx, L, with("turning_angle_after_invert", ti))
		}
		if math.Abs((a0-2*math.Pi)+(ai-2*math.Pi)) > 2*tolA {
			r.violate(sub, "bound-exceeded", "Loop.Area before and after Invert do not sum to 4*pi within the documented error ("+L.class+")", idx, L, with("area_after_invert", ai))
		}
		r.normalizedOracle(sub, idx, L, li, ni, ai, invArea, "after Invert", base)
		c.Eval(1)
	})

	// --- IsNormalized
	r.normalizedOracle(sub, idx, L, l0, n0, a0, ref.area, "", base)
	r.normalizedOracle(sub, idx, L, l1, n1, a1, invArea, "inverse", base)
	if !n0 && !n1 {
		r.violate(sub, "wrong-answer", "neither the loop nor its inverse IsNormalized ("+L.class+")", idx, L, base)
	}
	// Normalize: afterwards the loop is normalized
	c.Guard(sub, []int{idx}, func() any { return map[string]any{"loop": L.name, "op": "Normalize"} }, func() {
		for _, src := range [][]s2.Point{v, rv} {
			ln := s2.LoopFromPoints(c18Clone(src))
			ln.Normalize()
			if !ln.IsNormalized() {
				r.violate(sub, "wrong-answer", "Loop.Normalize leaves a loop that is not IsNormalized ("+L.class+")", idx, L, base)
			}
			if an := ln.Area(); an > 2*math.Pi+2*tolA {
				r.violate(sub, "wrong-answer", "Loop.Normalize leaves a loop of area > 2*pi ("+L.class+")", idx, L, with("area_after_normalize", an))
			}
		}
	})

	// --- which branch of Area decided?  (counted, and part of the non-triviality rule)
	ambiguous := a0 < e0 || a0 > 4*math.Pi-e0 || a1 < e0 || a1 > 4*math.Pi-e0
	if ambiguous {
		c.Count("loops_where_area_is_within_max_error_of_0_or_4pi (sign decided by curvature)", 1)
		r.nAmbiguous.Add(1)
		nontrivial = true
	}
	if ref.collinear {
		c.Count("loops_with_all_vertices_exactly_coplanar", 1)
		r.nCollinear.Add(1)
		nontrivial = true
	}
	if ref.sameDir {
		c.Count("loops_with_a_zero_length_edge (same direction, different floats)", 1)
	}
	switched := false
	for i := 2; i < n; i++ {
		if c18Angle(v[0].Vector, v[i].Vector) > math.Pi-1e-5 {
			switched = true
		}
	}

	// --- rotations of the vertex order
	if o.rotations {
		for _, dir := range []int{0, 1} {
			src, tb, ab := v, t0, a0
			refA := ref.area
			if dir == 1 {
				src, tb, ab, refA = rv, t1, a1, invArea
			}
			for k := 1; k < n; k++ {
				rot := c18Rotate(src, k)
				for i := 2; i < n; i++ {
					if c18Angle(rot[0].Vector, rot[i].Vector) > math.Pi-1e-5 {
						switched = true
					}
				}
				c.Guard(sub, []int{idx}, func() any {
					return map[string]any{"loop": L.name, "rotation": k, "reversed": dir == 1, "vertices": c18Verts(rot)}
				}, func() {
					lk := s2.LoopFromPoints(rot)
					ak, tk, nk := lk.Area(), lk.TurningAngle(), lk.IsNormalized()
					c.Eval(1)
					if math.Float64bits(tk) != math.Float64bits(tb) {
						r.violate(sub, "wrong-answer", "Loop.TurningAngle is not bit-identical after rotating the vertex order ("+L.class+")", idx, L,
							with("rotation", k, "reversed", dir == 1, "turning_angle_rotated", c18Bits(tk), "turning_angle_base", c18Bits(tb)))
					}
					d := math.Abs(ak - ab)
					r.m.obs("area_rotation/"+L.class, d/(2*tolA), fmt.Sprintf("%s rot %d rev %v", L.name, k, dir == 1))
					if d > 2*tolA {
						desc := "Loop.Area depends on the starting vertex by more than the documented error (" + L.class + ")"
						if c18CircDist4Pi(ak, ab) <= 2*tolA {
							desc = "Loop.Area flips between 0 and 4*pi when the vertex order is rotated (" + L.class + ")"
						}
						r.violate(sub, "bound-exceeded", desc, idx, L, with("rotation", k, "reversed", dir == 1, "area_rotated", ak, "area_base", ab, "tolerance", 2*tolA))
					}
					r.normalizedOracle(sub, idx, L, lk, nk, ak, refA, fmt.Sprintf("rotation %d reversed %v", k, dir == 1), base)
				})
			}
		}
		c.Count("rotations_evaluated", int64(2*(n-1)))
		r.nRot.Add(int64(2 * (n - 1)))
	}
	if switched {
		c.Count("loops_where_the_fan_origin_moves (a vertex farther than pi-1e-5 from the first)", 1)
		r.nSwitched.Add(1)
		nontrivial = true
	}

	// --- the library's own triangle areas over fans from other vertices
	if o.libFan && !ref.sameDir {
		orgs := []int{0, 1, n / 3, n / 2, n - 1}
		if n <= 8 {
			orgs = orgs[:0]
			for i := 0; i < n; i++ {
				orgs = append(orgs, i)
			}
		}
		done := map[int]bool{}
		for _, org := range orgs {
			if done[org] || !c18FanStable(v, org) {
				continue
			}
			done[org] = true
			var sum, comp float64 // compensated sum: the check must not add its own n*eps
			c.Guard(sub, []int{idx}, func() any { return map[string]any{"loop": L.name, "op": "fan", "origin": org} }, func() {
				for k := 1; k+1 < n; k++ {
					t := s2.SignedArea(v[org], v[(org+k)%n], v[(org+k+1)%n])
					y := t - comp
					s := sum + y
					comp = (s - sum) - y
					sum = s
				}
			})
			c.Eval(1)
			d := c18CircDist4Pi(sum, a0)
			r.m.obs("area_vs_library_fan/"+L.class, d/(2*tolA), fmt.Sprintf("%s origin %d", L.name, org))
			if d > 2*tolA {
				r.violate(sub, "bound-exceeded", "Loop.Area differs (mod 4*pi) from the sum of SignedArea over a fan triangulation by more than the documented error ("+L.class+")", idx, L,
					with("fan_origin", org, "fan_sum", sum, "error", d, "tolerance", 2*tolA))
			}
			c.Count("library_fan_triangulations", 1)
			r.nLibFan.Add(1)
		}
	}

	// --- containment: discs around contained / not contained probes bound the area
	if o.containment {
		r.containmentOracle(sub, idx, L, v, a0, tolA, "", base)
		r.containmentOracle(sub, idx, L, rv, a1, tolA, "inverse", base)
	}
	return nontrivial
}

// normalizedOracle: IsNormalized must say "area <= 2*pi" whenever the exact area
// is farther from 2*pi than the documented error of the curvature, and must agree
// with Loop.Area up to that error.
func (r *c18Run) normalizedOracle(sub string, idx int, L c18Loop, l *s2.Loop, isNorm bool, area float64, refArea *big.Float, what string, base map[string]any) {
	tol := 2*l.VerifTurningAngleMaxError() + 8*c18Eps
	d := c18new().Sub(refArea, c18TwoPi)
	df := c18Float(d)
	detail := func() map[string]any {
		out := map[string]any{"variant": what, "is_normalized_variant": isNorm, "area_variant": area, "reference_area_variant": c18Float(refArea)}
		for k, v := range base {
			out[k] = v
		}
		return out
	}
	tag := L.class
	if df < -tol && !isNorm {
		r.violate(sub, "wrong-answer", "Loop.IsNormalized is false for a loop whose exact area is below 2*pi ("+tag+")", idx, L, detail())
	}
	if df > tol && isNorm {
		r.violate(sub, "wrong-answer", "Loop.IsNormalized is true for a loop whose exact area is above 2*pi ("+tag+")", idx, L, detail())
	}
	// Area carries its own documented error on top of the curvature's
	tolArea := tol + c18AreaTol(l)
	if (area > 2*math.Pi+tolArea && isNorm) || (area < 2*math.Pi-tolArea && !isNorm) {
		r.violate(sub, "wrong-answer", "Loop.IsNormalized disagrees with Loop.Area ("+tag+")", idx, L, detail())
	}
}

// containmentOracle: with k of the m far probes contained (exact reference
// containment), k disjoint discs lie inside the loop and m-k outside.
func (r *c18Run) containmentOracle(sub string, idx int, L c18Loop, v []s2.Point, area, tolA float64, what string, base map[string]any) {
	far := r.probes.farProbes(v)
	if len(far) == 0 {
		r.c.Count("containment_oracle_without_far_probe", 1)
		return
	}
	rl := c18NewRefLoop(v)
	k := 0
	for j, i := range far {
		in := rl.contains(r.probes.p[i])
		if in {
			k++
		}
		// harness self-check: the filtered evaluation is the reference model
		if j < 3 || len(v) <= 4 && j < 12 {
			if rl.slow.Contains(r.probes.p[i]) != in {
				panic(core.HarnessError(fmt.Sprintf("C18: filtered containment differs from refmodel.Loop.Contains on %q probe %d", L.name, i)))
			}
			r.c.Count("filtered_containment_cross_checked_against_refmodel", 1)
		}
	}
	m := len(far)
	r.c.Eval(m)
	r.c.Count("probe_containment_evaluations", int64(m))
	lower := float64(k) * r.probes.capA
	upper := 4*math.Pi - float64(m-k)*r.probes.capA
	nearZero := area < 1e-3
	nearFull := area > 4*math.Pi-1e-3
	if nearZero || nearFull {
		r.c.Count("containment_oracle_on_loops_with_area_within_1e-3_of_0_or_4pi", 1)
		r.nNearZeroContain.Add(1)
	}
	if area < lower-tolA || area > upper+tolA {
		desc := "Loop.Area is inconsistent with the points the loop contains"
		switch {
		case nearZero && 2*k > m:
			desc = "Loop.Area is near 0 for a loop that contains most of the sphere (exact reference containment)"
		case nearFull && 2*k < m:
			desc = "Loop.Area is near 4*pi for a loop that contains almost nothing (exact reference containment)"
		}
		d := map[string]any{"variant": what, "far_probes": m, "far_probes_contained": k, "area_variant": area, "area_lower_bound": lower, "area_upper_bound": upper,
			"probe_clearance": r.probes.d, "vertices_variant": c18Verts(v)}
		for kk, vv := range base {
			d[kk] = vv
		}
		r.violate(sub, "wrong-answer", desc+" ("+L.class+")", idx, L, d)
	}
}

// ---------------------------------------------------------------- driver

func runC18(c *core.Ctx) {
	thorough := !c.Quick()
	c.Rule = "Cases are the entries of a fixed loop catalogue (regular n-gons n in {3,4,8,31,32,33,40,64,100} x 26 centres (face centres/poles, face-edge midpoints, cube corners) x radii {1e-7,1e-3,0.1,1,pi/2-1e-3,pi/2,2}; cell loops of levels 0..30; thin triangles/quadrilaterals/22-vertex strips of width 1e-15..1e-9 along arcs of length 1e-6..pi-1e-3; every triangle of pairwise non-antipodal points of the exactly-degenerate alphabet P-deg (triangles with two or three vertices of exactly the same direction form the sub-check pdeg-coincident); triangles with an edge of length pi-eps and 4..6-vertex loops with antipodal vertex pairs), each with its reversal, all cyclic rotations of both, fans from several vertices; a polygon catalogue (concentric shells/holes to depth 4, islands, 13 loops, cells sharing a vertex, slivers) with complements; and all ordered triples of P-deg for the triangle primitives. The thorough tier uses the larger P-deg alphabet, more centres, radii, sizes, widths and perturbations. " +
		"A catalogue loop (counted once, not per rotation) is non-trivial iff Loop.Area lands within turningAngleMaxError of 0 or 4*pi so that the sign is decided by the curvature, or all its vertices are exactly coplanar, or some vertex is farther than pi-1e-5 from the first vertex of some rotation so that the triangle fan moves its origin; a polygon is non-trivial iff it has more than one loop."
	c.Assume = []string{
		"refmodel.SoSSign / refmodel.NewLoop(v).Contains implement the documented perturbation and crossing rules (validated by C02/C04)",
		"math/big arithmetic (Float.Sqrt, Int) is correct; the 384-bit arc tangent series is cross-checked by comparing two independent area formulas (Gauss-Bonnet and fan sum) on every loop",
		"nothing is asserted off the catalogue (DESIGN L1): the error constants are shown not to be exceeded on the lattice, not proved sufficient",
	}
	r := &c18Run{c: c, m: &c18Metrics{worst: map[string]float64{}, where: map[string]string{}}, probes: c18MakeProbes(200)}
	c.Note("probe_set", fmt.Sprintf("200-point golden-angle spiral, clearance radius d=%.4f rad, disc area %.5f sr", r.probes.d, r.probes.capA))

	type class struct {
		sub   string
		loops []c18Loop
		opts  c18Opts
	}
	var classes []class

	ng := c18Filter(c, c18NgonCatalogue(thorough), false)
	classes = append(classes, class{"ngon", ng, c18Opts{rotations: true, containment: true, libFan: true}})
	classes = append(classes, class{"cell", c18Filter(c, c18CellCatalogue(thorough), false), c18Opts{rotations: true, containment: true, libFan: true}})
	classes = append(classes, class{"sliver", c18Filter(c, c18SliverCatalogue(thorough), true), c18Opts{rotations: true, containment: true, libFan: true}})
	classes = append(classes, class{"longedge", c18Filter(c, c18LongEdgeCatalogue(thorough), true), c18Opts{rotations: true, containment: true, libFan: true}})
	classes = append(classes, class{"band", c18Filter(c, c18BandCatalogue(thorough), true), c18Opts{rotations: true, containment: true, libFan: true}})

	// P-deg triangles: one representative per cyclic class and orientation is
	// (i<j<k); the reversal and all rotations are produced by checkLoop, which
	// covers all ordered triples.
	pd := c18PDegPoints(thorough)
	var tri, coin []c18Loop
	nTriples, nColl := 0, 0
	for i := 0; i < len(pd); i++ {
		for j := i + 1; j < len(pd); j++ {
			if c18DirRelation(pd[i], pd[j]) < 0 {
				continue
			}
			for k := j + 1; k < len(pd); k++ {
				if c18DirRelation(pd[i], pd[k]) < 0 || c18DirRelation(pd[j], pd[k]) < 0 {
					continue
				}
				same := 0
				for _, pr := range [][2]int{{i, j}, {j, k}, {i, k}} {
					if c18DirRelation(pd[pr[0]], pd[pr[1]]) > 0 {
						same++
					}
				}
				if same > 0 {
					// two or three vertices are different floats of exactly the same
					// direction: kept, but as a sub-check of its own
					coin = append(coin, c18Loop{fmt.Sprintf("pdeg(%d,%d,%d) with %d coincident-direction pairs", i, j, k, same), "pdeg-coincident", []s2.Point{pd[i], pd[j], pd[k]}})
				} else {
					tri = append(tri, c18Loop{fmt.Sprintf("pdeg(%d,%d,%d)", i, j, k), "pdeg", []s2.Point{pd[i], pd[j], pd[k]}})
				}
				nTriples++
				if refmodel.ExactDetSign(pd[i], pd[j], pd[k]) == 0 {
					nColl++
				}
			}
		}
	}
	c.Note("pdeg", fmt.Sprintf("%d points, %d unordered non-antipodal triples (= %d ordered triples), %d exactly coplanar", len(pd), nTriples, 6*nTriples, nColl))
	classes = append(classes, class{"pdeg", c18Filter(c, tri, false), c18Opts{rotations: true, containment: true, libFan: true}})
	classes = append(classes, class{"pdeg-coincident", c18Filter(c, coin, false), c18Opts{rotations: true, containment: true, libFan: true}})

	subWall := map[string]float64{}
	for _, cl := range classes {
		cl := cl
		var mu sync.Mutex
		done := 0
		cut := false
		t0 := time.Now()
		c.ParallelFor(len(cl.loops), func(i int) {
			if c.Skip(cl.sub, i) {
				return
			}
			if c.Expired() {
				mu.Lock()
				cut = true
				mu.Unlock()
				return
			}
			L := cl.loops[i]
			if r.checkLoop(cl.sub, i, L, cl.opts) {
				c.Nontrivial(1)
			}
			c.Count("catalogue_loops:"+cl.sub, 1)
			mu.Lock()
			done++
			mu.Unlock()
			if i%(len(cl.loops)/3+1) == 0 {
				c.Sample(map[string]any{"sub_check": cl.sub, "loop": L.name, "vertices": len(L.v), "first_vertex": [3]float64{L.v[0].X, L.v[0].Y, L.v[0].Z}})
			}
		})
		if cut {
			c.CapHit(fmt.Sprintf("sub-check %s: %d of %d catalogue loops evaluated before the budget expired", cl.sub, done, len(cl.loops)))
		}
		subWall[cl.sub] = math.Round(time.Since(t0).Seconds()*10) / 10
	}

	tp := time.Now()
	runC18Polygons(c, r, thorough)
	subWall["polygon"] = math.Round(time.Since(tp).Seconds()*10) / 10
	tp = time.Now()
	runC18Primitives(c, r, thorough)
	subWall["primitives"] = math.Round(time.Since(tp).Seconds()*10) / 10
	c.Note("wall_seconds_per_sub_check", subWall)

	// vacuity checks
	if c.OnlySub == "" {
		// (counters are read back through the evidence; here only the essentials)
		if nColl == 0 {
			panic(core.HarnessError("C18: no exactly coplanar P-deg triple was enumerated"))
		}
		if !c.Expired() {
			for name, n := range map[string]int64{
				"loops whose area sign is decided by the curvature":            r.nAmbiguous.Load(),
				"loops where the triangle fan moves its origin":                r.nSwitched.Load(),
				"loops with all vertices exactly coplanar":                     r.nCollinear.Load(),
				"containment oracle on loops with area within 1e-3 of 0 / 4pi": r.nNearZeroContain.Load(),
				"library fan triangulations":                                   r.nLibFan.Load(),
				"rotations":                                                    r.nRot.Load(),
			} {
				if n == 0 {
					panic(core.HarnessError("C18 vacuous: no case for: " + name))
				}
			}
		}
	}
	// metrics into the evidence
	var names []string
	for k := range r.m.worst {
		names = append(names, k)
	}
	sort.Strings(names)
	worst := map[string]any{}
	for _, k := range names {
		worst[k] = map[string]any{"observed_over_allowed": fmt.Sprintf("%.4g", r.m.worst[k]), "at": r.m.where[k]}
	}
	c.Note("worst_observed_error_over_documented_bound", worst)
}
