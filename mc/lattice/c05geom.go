package lattice

// Geometry helpers shared by the C05 and C10 checks: angular distances to segments,
// chains and cell boundaries (float64, error about 1e-15; used only to decide
// "farther than a slack from a boundary"), and independent constructions of probe
// points and of valid loops (regular polygons, meridian wedges).

import (
	"math"
	"sort"

	"github.com/golang/geo/r3"
	"github.com/golang/geo/s2"
)

// GeoAngle is the angle between two unit vectors, accurate to about 1e-16 everywhere.
func GeoAngle(a, b s2.Point) float64 {
	return math.Atan2(a.Cross(b.Vector).Norm(), a.Dot(b.Vector))
}

// GeoSegDist is the angular distance from p to the geodesic segment ab (shorter arc).
func GeoSegDist(p, a, b s2.Point) float64 {
	n := a.Sub(b.Vector).Cross(a.Add(b.Vector)) // 2 a x b, accurate for close a,b
	nn := n.Norm()
	dEnd := math.Min(GeoAngle(p, a), GeoAngle(p, b))
	if nn < 1e-300 {
		return dEnd
	}
	// p projects into the lune of ab iff it is on the b-side of a and on the a-side of b.
	da := n.Cross(a.Vector) // tangent at a pointing towards b
	db := b.Cross(n)        // tangent at b pointing away from a ... (n x b points onwards; b x n points back)
	if p.Dot(da) >= 0 && p.Dot(db) >= 0 {
		s := math.Abs(p.Dot(n)) / nn
		if s > 1 {
			s = 1
		}
		return math.Min(math.Asin(s), dEnd)
	}
	return dEnd
}

// GeoChainDist is the distance from p to a vertex chain (closed if closed is true).
func GeoChainDist(p s2.Point, v []s2.Point, closed bool) float64 {
	d := math.Inf(1)
	n := len(v)
	if n == 0 {
		return d
	}
	if n == 1 {
		return GeoAngle(p, v[0])
	}
	last := n - 1
	if closed {
		last = n
	}
	for i := 0; i < last; i++ {
		if x := GeoSegDist(p, v[i], v[(i+1)%n]); x < d {
			d = x
		}
	}
	return d
}

// GeoCellVerts are the four vertices of a cell.
func GeoCellVerts(c s2.Cell) []s2.Point {
	return []s2.Point{c.Vertex(0), c.Vertex(1), c.Vertex(2), c.Vertex(3)}
}

// GeoCellBoundaryDist is the distance from p to the boundary of the cell.
func GeoCellBoundaryDist(p s2.Point, c s2.Cell) float64 {
	return GeoChainDist(p, GeoCellVerts(c), true)
}

// GeoSlerp interpolates along the geodesic from a to b.
func GeoSlerp(a, b s2.Point, t float64) s2.Point {
	ang := GeoAngle(a, b)
	if ang < 1e-150 {
		return a
	}
	var v r3.Vector
	if ang < 1e-8 {
		v = a.Mul(1 - t).Add(b.Mul(t))
	} else {
		v = a.Mul(math.Sin((1 - t) * ang)).Add(b.Mul(math.Sin(t * ang)))
	}
	return s2.Point{Vector: v.Normalize()}
}

// GeoFrame returns an orthonormal right-handed frame (u, v, c).
func GeoFrame(c s2.Point) (u, v r3.Vector) {
	e := r3.Vector{X: 1}
	ax, ay, az := math.Abs(c.X), math.Abs(c.Y), math.Abs(c.Z)
	if ay <= ax && ay <= az {
		e = r3.Vector{Y: 1}
	} else if az <= ax && az <= ay {
		e = r3.Vector{Z: 1}
	}
	u = c.Cross(e).Normalize()
	v = c.Cross(u).Normalize()
	return u, v
}

// GeoCirclePoint is the point at angular distance r from c in direction theta.
func GeoCirclePoint(c s2.Point, r, theta float64) s2.Point {
	u, v := GeoFrame(c)
	d := u.Mul(math.Cos(theta)).Add(v.Mul(math.Sin(theta)))
	return s2.Point{Vector: c.Mul(math.Cos(r)).Add(d.Mul(math.Sin(r))).Normalize()}
}

// GeoRegular returns the vertices of a regular n-gon of angular radius r around c,
// counter-clockwise around c (its interior contains c; for r > pi/2 the interior
// is larger than a hemisphere).  phase rotates the first vertex.
func GeoRegular(c s2.Point, r float64, n int, phase float64) []s2.Point {
	out := make([]s2.Point, n)
	for k := 0; k < n; k++ {
		out[k] = GeoCirclePoint(c, r, phase+2*math.Pi*float64(k)/float64(n))
	}
	return out
}

func GeoReverse(v []s2.Point) []s2.Point {
	out := make([]s2.Point, len(v))
	for i := range v {
		out[len(v)-1-i] = v[i]
	}
	return out
}

// GeoLatLng computes latitude and longitude of a point (radians).
func GeoLatLng(p s2.Point) (lat, lng float64) {
	return math.Atan2(p.Z, math.Sqrt(p.X*p.X+p.Y*p.Y)), math.Atan2(p.Y, p.X)
}

// GeoPtLL builds the point of a latitude / longitude in radians.
func GeoPtLL(lat, lng float64) s2.Point {
	cl := math.Cos(lat)
	return s2.Point{Vector: r3.Vector{X: cl * math.Cos(lng), Y: cl * math.Sin(lng), Z: math.Sin(lat)}}
}

// GeoPt formats a point for replay details.
func GeoPt(p s2.Point) [3]float64 { return [3]float64{p.X, p.Y, p.Z} }

func GeoPts(ps []s2.Point) [][3]float64 {
	out := make([][3]float64, len(ps))
	for i, p := range ps {
		out[i] = GeoPt(p)
	}
	return out
}

// GeoLeafIndex is a list of probe points sorted by the id of the leaf cell that
// contains them, for "which probes fall into this cell" range queries.
type GeoLeafIndex struct {
	IDs []s2.CellID
	Pts []s2.Point
}

func NewGeoLeafIndex(pts []s2.Point) *GeoLeafIndex {
	type e struct {
		id s2.CellID
		p  s2.Point
	}
	es := make([]e, len(pts))
	for i, p := range pts {
		es[i] = e{GeoLeaf(p), p}
	}
	sort.Slice(es, func(i, j int) bool { return es[i].id < es[j].id })
	ix := &GeoLeafIndex{}
	for _, x := range es {
		ix.IDs = append(ix.IDs, x.id)
		ix.Pts = append(ix.Pts, x.p)
	}
	return ix
}

// in returns the probes whose leaf cell lies inside the given cell.
func (ix *GeoLeafIndex) In(id s2.CellID) []s2.Point {
	lo, hi := id.RangeMin(), id.RangeMax()
	i := sort.Search(len(ix.IDs), func(k int) bool { return ix.IDs[k] >= lo })
	j := sort.Search(len(ix.IDs), func(k int) bool { return ix.IDs[k] > hi })
	return ix.Pts[i:j]
}

// GeoCellProbes returns probe points of a cell: its vertices, its centre, and the
// centres and vertices of its descendants down to depth levels below (depth 1 gives
// the edge midpoints through the children's vertices).
func GeoCellProbes(id s2.CellID, depth int) []s2.Point {
	c := s2.CellFromCellID(id)
	out := []s2.Point{c.Vertex(0), c.Vertex(1), c.Vertex(2), c.Vertex(3), c.Center()}
	lvl := id.Level()
	for d := 1; d <= depth && lvl+d <= 30; d++ {
		end := id.ChildEndAtLevel(lvl + d)
		for ch := id.ChildBeginAtLevel(lvl + d); ch != end; ch = ch.Next() {
			cc := s2.CellFromCellID(ch)
			out = append(out, cc.Center())
			if d <= 2 {
				out = append(out, cc.Vertex(0), cc.Vertex(2))
			}
		}
	}
	return out
}

// GeoLeaf is the leaf cell id of a point.
func GeoLeaf(p s2.Point) s2.CellID { return s2.CellFromPoint(p).ID() }

// GeoWedge returns the vertices of the meridian wedge between longitudes lng0 < lng1
// (radians): both poles are vertices and each meridian carries m interior vertices.
func GeoWedge(lng0, lng1 float64, m int) []s2.Point {
	var v []s2.Point
	v = append(v, s2.PointFromCoords(0, 0, -1))
	for k := 1; k <= m; k++ { // north along the eastern meridian: the wedge (to the west) is on the left
		v = append(v, GeoPtLL(-math.Pi/2+math.Pi*float64(k)/float64(m+1), lng1))
	}
	v = append(v, s2.PointFromCoords(0, 0, 1))
	for k := m; k >= 1; k-- {
		v = append(v, GeoPtLL(-math.Pi/2+math.Pi*float64(k)/float64(m+1), lng0))
	}
	return v
}
