// Package lattice defines the finite input alphabets that the enumerating
// checks walk completely (DESIGN.md §4).
package lattice

import (
	"math"

	"github.com/golang/geo/r3"
	"github.com/golang/geo/s1"
	"github.com/golang/geo/s2"
)

// MaxSiTi is 2^31, the range of the discrete (si,ti) coordinates of a face.
const MaxSiTi = 1 << 31

// SiTiGrid returns the structural coordinate alphabet G of DESIGN §4 for depth k.
func SiTiGrid(k int) []uint32 {
	set := map[uint32]bool{}
	for _, v := range []uint64{0, 1, 2, 1<<30 - 1, 1 << 30, 1<<30 + 1, 1<<31 - 2, 1<<31 - 1, 1 << 31} {
		set[uint32(v)] = true
	}
	n := 1 << uint(k)
	for j := 0; j <= n; j++ {
		set[uint32(uint64(j)*MaxSiTi/uint64(n))] = true
	}
	var out []uint32
	for v := range set {
		out = append(out, v)
	}
	sortU32(out)
	return out
}

func sortU32(a []uint32) {
	for i := 1; i < len(a); i++ {
		for j := i; j > 0 && a[j] < a[j-1]; j-- {
			a[j], a[j-1] = a[j-1], a[j]
		}
	}
}

func stToUV(s float64) float64 {
	if s >= 0.5 {
		return (1 / 3.) * (4*s*s - 1)
	}
	return (1 / 3.) * (1 - 4*(1-s)*(1-s))
}

func faceUVToXYZ(face int, u, v float64) r3.Vector {
	switch face {
	case 0:
		return r3.Vector{X: 1, Y: u, Z: v}
	case 1:
		return r3.Vector{X: -u, Y: 1, Z: v}
	case 2:
		return r3.Vector{X: -u, Y: -v, Z: 1}
	case 3:
		return r3.Vector{X: -1, Y: -v, Z: -u}
	case 4:
		return r3.Vector{X: v, Y: -1, Z: -u}
	}
	return r3.Vector{X: v, Y: u, Z: -1}
}

// FaceSiTiPoint is the unit point of (face, si, ti), computed independently of
// golang/geo's own conversion.
func FaceSiTiPoint(face int, si, ti uint32) s2.Point {
	u := stToUV(float64(si) / MaxSiTi)
	v := stToUV(float64(ti) / MaxSiTi)
	return s2.Point{Vector: faceUVToXYZ(face, u, v).Normalize()}
}

// PStruct returns the structural points: every (face, si, ti) over the grid of
// depth k, the axis points and their antipodes, the origin point, the poles.
func PStruct(k int) []s2.Point {
	g := SiTiGrid(k)
	var out []s2.Point
	for f := 0; f < 6; f++ {
		for _, si := range g {
			for _, ti := range g {
				out = append(out, FaceSiTiPoint(f, si, ti))
			}
		}
	}
	for _, v := range []r3.Vector{{X: 1}, {X: -1}, {Y: 1}, {Y: -1}, {Z: 1}, {Z: -1}} {
		out = append(out, s2.Point{Vector: v})
	}
	out = append(out, s2.OriginPoint())
	return Dedup(out)
}

// Dedup removes exact duplicates, keeping first occurrences.
func Dedup(ps []s2.Point) []s2.Point {
	seen := map[r3.Vector]bool{}
	var out []s2.Point
	for _, p := range ps {
		if !seen[p.Vector] {
			seen[p.Vector] = true
			out = append(out, p)
		}
	}
	return out
}

// Ulp moves x by n units in the last place.
func Ulp(x float64, n int) float64 {
	for ; n > 0; n-- {
		x = math.Nextafter(x, math.Inf(1))
	}
	for ; n < 0; n++ {
		x = math.Nextafter(x, math.Inf(-1))
	}
	return x
}

// PUlp returns every point obtained by moving each coordinate of p by -k..k
// ulps (not renormalised; all remain unit length within tolerance).  p itself
// is included.
func PUlp(p s2.Point, k int) []s2.Point {
	var out []s2.Point
	for dx := -k; dx <= k; dx++ {
		for dy := -k; dy <= k; dy++ {
			for dz := -k; dz <= k; dz++ {
				out = append(out, s2.Point{Vector: r3.Vector{X: Ulp(p.X, dx), Y: Ulp(p.Y, dy), Z: Ulp(p.Z, dz)}})
			}
		}
	}
	return out
}

// PDeg returns exactly degenerate points: points on exactly related coordinate
// planes (x=0, y=0, z=0, x=y, x=-y, x=z, y=z, x=2y), exact antipodes, scaled
// copies (same direction, different float) and the axis points.  big selects
// the thorough alphabet.
func PDeg(big bool) []s2.Point {
	var out []s2.Point
	add := func(x, y, z float64) {
		v := r3.Vector{X: x, Y: y, Z: z}
		n := v.Norm()
		// one division per coordinate keeps exact ratios between equal coordinates
		out = append(out, s2.Point{Vector: r3.Vector{X: x / n, Y: y / n, Z: z / n}})
	}
	vals := []float64{1, 2}
	if big {
		vals = []float64{1, 2, 3, 0.5}
	}
	for _, a := range vals {
		for _, c := range vals {
			add(0, a, c)  // x = 0
			add(a, 0, c)  // y = 0
			add(a, c, 0)  // z = 0
			add(a, a, c)  // x = y
			add(a, -a, c) // x = -y
			add(a, c, a)  // x = z
			add(c, a, a)  // y = z
			if big {
				add(2*a, a, c) // x = 2y
				add(-a, c, -a)
			}
		}
	}
	for _, v := range []r3.Vector{{X: 1}, {Y: 1}, {Z: 1}} {
		out = append(out, s2.Point{Vector: v})
	}
	base := Dedup(out)
	res := append([]s2.Point(nil), base...)
	lim := 6
	if big {
		lim = 14
	}
	for i, p := range base {
		if i%3 == 0 {
			res = append(res, s2.Point{Vector: p.Mul(-1)}) // exact antipode
		}
		if i < lim {
			res = append(res, s2.Point{Vector: p.Mul(1 - 1.0/(1<<52))}) // same direction, different float
			res = append(res, s2.Point{Vector: p.Mul(1 + 1.0/(1<<51))})
		}
	}
	return Dedup(res)
}

// PTiny returns points (1,y,z) and permutations with tiny y, z: unit within
// tolerance, separations from 1e-300 upward.
func PTiny(big bool) []s2.Point {
	eps := []float64{0, 5e-324, 1e-300, 1e-160, 1e-100, 1e-15}
	if big {
		eps = []float64{0, 5e-324, 1e-300, 1e-200, 1e-160, 1e-100, 1e-30, 1e-15, 1e-8}
	}
	var out []s2.Point
	for _, y := range eps {
		for _, z := range eps {
			for _, sy := range []float64{1, -1} {
				out = append(out, s2.Point{Vector: r3.Vector{X: 1, Y: sy * y, Z: z}})
				if big {
					out = append(out, s2.Point{Vector: r3.Vector{X: y, Y: 1, Z: sy * z}})
				}
			}
		}
	}
	return Dedup(out)
}

// LL is shorthand for a point from degrees.
func LL(lat, lng float64) s2.Point { return s2.PointFromLatLng(s2.LatLngFromDegrees(lat, lng)) }

// Deg converts degrees to an s1.Angle.
func Deg(d float64) s1.Angle { return s1.Angle(d) * s1.Degree }

// PGeneric returns points in general position (no zero, equal or otherwise related
// coordinates): the inputs for which floating-point rounding noise is largest.
func PGeneric(big bool) []s2.Point {
	lats := []float64{-67.3, -35.1, -11.7, 8.9, 23.4, 47.2, 71.9}
	lngs := []float64{-163.2, -97.4, -31.8, 12.6, 58.3, 104.7, 149.1}
	if big {
		lats = append(lats, -52.6, -2.3, 35.8, 83.1)
		lngs = append(lngs, -128.9, -61.5, 81.2, 171.6)
	}
	var out []s2.Point
	for _, la := range lats {
		for _, lo := range lngs {
			out = append(out, LL(la, lo))
		}
	}
	return out
}
