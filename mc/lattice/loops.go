package lattice

import (
	"fmt"
	"math"

	"github.com/golang/geo/r3"
	"github.com/golang/geo/s1"
	"github.com/golang/geo/s2"
)

// NamedLoop is a catalogue entry; every entry is a valid loop by construction.
type NamedLoop struct {
	Name string
	Make func() *s2.Loop // fresh object on every call (index not built)
}

// Centres are the structural positions used by the catalogues.
func Centres() map[string]s2.Point {
	return map[string]s2.Point{
		"face-centre": s2.Point{Vector: r3.Vector{X: 1, Y: 0, Z: 0}},
		"face-edge":   s2.Point{Vector: r3.Vector{X: 1, Y: 1, Z: 0}.Normalize()},
		"cube-corner": s2.Point{Vector: r3.Vector{X: 1, Y: 1, Z: 1}.Normalize()},
		"north-pole":  s2.Point{Vector: r3.Vector{X: 0, Y: 0, Z: 1}},
		"generic":     LL(20, 30),
		"south-ish":   LL(-67, -140),
	}
}

// RegularLoops returns regular n-gons over the given vertex counts, centres and radii (radians).
func RegularLoops(ns []int, centres []string, radii []float64) []NamedLoop {
	cs := Centres()
	var out []NamedLoop
	for _, cn := range centres {
		ctr := cs[cn]
		for _, n := range ns {
			for _, r := range radii {
				n, r, ctr := n, r, ctr
				out = append(out, NamedLoop{
					Name: fmt.Sprintf("regular(n=%d,centre=%s,r=%g)", n, cn, r),
					Make: func() *s2.Loop { return s2.RegularLoop(ctr, s1.Angle(r), n) },
				})
			}
		}
	}
	return out
}

// CellLoops returns the loops of all cells of the given level.
func CellLoops(level int) []NamedLoop {
	var out []NamedLoop
	for f := 0; f < 6; f++ {
		id := s2.CellIDFromFace(f)
		for c := id.ChildBeginAtLevel(level); c != id.ChildEndAtLevel(level); c = c.Next() {
			c := c
			out = append(out, NamedLoop{Name: "cell(" + c.String() + ")", Make: func() *s2.Loop { return s2.LoopFromCell(s2.CellFromCellID(c)) }})
		}
	}
	return out
}

// Wedges returns n meridian wedges that tile the sphere: wedge i is bounded by the
// meridians at longitudes 2πi/n and 2π(i+1)/n; every meridian is densified with
// the same m interior vertices (shared exactly by the two adjacent wedges) so that
// a wedge has 2m+2 vertices.
func Wedges(n, m int) []NamedLoop {
	north := s2.Point{Vector: r3.Vector{Z: 1}}
	south := s2.Point{Vector: r3.Vector{Z: -1}}
	mer := make([][]s2.Point, n)
	for i := 0; i < n; i++ {
		lng := 2 * math.Pi * float64(i) / float64(n)
		if lng > math.Pi {
			lng -= 2 * math.Pi
		}
		for j := 1; j <= m; j++ {
			lat := -math.Pi/2 + math.Pi*float64(j)/float64(m+1)
			mer[i] = append(mer[i], s2.PointFromLatLng(s2.LatLng{Lat: s1.Angle(lat), Lng: s1.Angle(lng)}))
		}
	}
	var out []NamedLoop
	for i := 0; i < n; i++ {
		i := i
		out = append(out, NamedLoop{Name: fmt.Sprintf("wedge(%d/%d,m=%d)", i, n, m), Make: func() *s2.Loop {
			// CCW seen from outside: south -> up meridian i+1 -> north -> down meridian i
			var v []s2.Point
			v = append(v, south)
			v = append(v, mer[(i+1)%n]...)
			v = append(v, north)
			for j := m - 1; j >= 0; j-- {
				v = append(v, mer[i][j])
			}
			return s2.LoopFromPoints(v)
		}})
	}
	return out
}

// LoopProbes returns probe points derived from a loop: every vertex, points
// along every edge (midpoint and third points), and the 1-ulp neighbours of the
// first few vertices.
func LoopProbes(l *s2.Loop, ulpVertices int) []s2.Point {
	var out []s2.Point
	n := l.NumVertices()
	for i := 0; i < n; i++ {
		a, b := l.Vertex(i), l.Vertex(i+1)
		out = append(out, a)
		out = append(out, s2.Interpolate(0.5, a, b), s2.Interpolate(1.0/3, a, b))
		if i < ulpVertices {
			out = append(out, PUlp(a, 1)...)
		}
	}
	return out
}
